"""Binder: make sure the checks run the code of the *current* working tree.

* Python sources: nothing to build; ``$VERIF_REPO`` (default /repo) is put first on sys.path.
* ``compmech/lib/src/*.c`` / ``compmech/include/*.h``: hashed; when they differ from the pinned
  hashes, every extension that statically embeds them is rebuilt (gcc) from the generated ``.c``
  lying next to the ``.pyx`` into ``.cache/ext/<key>/`` and shadow-loaded through a meta-path finder.
  ``libbardell_ref.so`` (ctypes) is always built from the current lib sources.
* generated ``.c`` edited by hand: that extension is rebuilt the same way.
* ``.pyx`` / ``.pxi`` edited: Cython is not installed in this sandbox, the kernel cannot be rebuilt;
  this is reported loudly (stdout + evidence.assumptions) and the stale binary is used, exactly as the
  test-suite would.  It is never turned into a violation.
"""
import hashlib
import importlib.abc
import importlib.machinery
import importlib.util
import json
import os
import re
import subprocess
import sys
import sysconfig
from concurrent.futures import ThreadPoolExecutor

HOME = os.environ.get('VERIF_HOME') or os.path.dirname(os.path.dirname(os.path.abspath(__file__)))
REPO = os.environ.get('VERIF_REPO', '/repo')
CACHE = os.environ.get('VERIF_CACHE') or os.path.join('/verif' if os.path.isdir('/verif') else HOME, '.cache')
PINNED = os.path.join(HOME, 'mc', 'pinned_hashes.json')
EXT_SUFFIX = sysconfig.get_config_var('EXT_SUFFIX')

LIBVARS = {
    'legendre_src': ['legendre_gauss_quadrature.c'],
    'bardell_int_src': ['bardell.c'],
    'bardell_func_src': ['bardell_functions.c'],
    'bardell_int12_src': ['bardell_integral_ff_12.c', 'bardell_integral_ffxi_12.c',
                          'bardell_integral_ffxixi_12.c', 'bardell_integral_fxifxi_12.c',
                          'bardell_integral_fxifxixi_12.c', 'bardell_integral_fxixifxixi_12.c'],
    'bardell_intc0c1_src': ['bardell_integral_ff_c0c1.c', 'bardell_integral_ffxi_c0c1.c',
                            'bardell_integral_fxif_c0c1.c', 'bardell_integral_fxifxi_c0c1.c',
                            'bardell_integral_fxixifxixi_c0c1.c'],
}


def sha(path):
    h = hashlib.sha256()
    with open(path, 'rb') as f:
        for blk in iter(lambda: f.read(1 << 20), b''):
            h.update(blk)
    return h.hexdigest()


def parse_setup(repo=None):
    """name -> dict(pyx=relpath, lib=[c files], nl=bool) from the repository's setup.py (text parse)."""
    repo = repo or REPO
    txt = open(os.path.join(repo, 'setup.py')).read()
    out = {}
    for blk in txt.split('Extension(')[1:]:
        m = re.match(r"\s*'([\w\.]+)'", blk)
        if not m:
            continue
        name = m.group(1)
        blk = blk.split("language='c')")[0]
        pyx = re.search(r"root_path \+ '(/[\w/]+\.pyx)'", blk)
        lib = []
        for var, files in LIBVARS.items():
            if re.search(r'\b%s\b' % var, blk):
                lib += files
        out[name] = dict(pyx='compmech' + pyx.group(1) if pyx else None, lib=lib,
                         nl='compiler_args_NL' in blk)
    return out


def tracked_files(repo=None):
    repo = repo or REPO
    files = []
    for d, _, fs in os.walk(os.path.join(repo, 'compmech')):
        for f in fs:
            if f.endswith(('.pyx', '.pxi', '.pxd', '.c', '.h')):
                files.append(os.path.relpath(os.path.join(d, f), repo))
    return sorted(files)


def current_hashes(repo=None):
    repo = repo or REPO
    with ThreadPoolExecutor(8) as ex:
        fl = tracked_files(repo)
        return dict(zip(fl, ex.map(lambda p: sha(os.path.join(repo, p)), fl)))


def pin():
    h = current_hashes('/repo')
    json.dump(h, open(PINNED, 'w'), indent=0, sort_keys=True)
    print('pinned', len(h), 'files')


def _run(cmd):
    r = subprocess.run(cmd, capture_output=True, text=True)
    if r.returncode != 0:
        raise RuntimeError('build failed: %s\n%s' % (' '.join(cmd), r.stderr[-3000:]))


def lib_objects(repo=None, hashes=None):
    """Compile every lib/src/*.c of the current tree to a cached object; returns {file: obj}."""
    repo = repo or REPO
    src = os.path.join(repo, 'compmech', 'lib', 'src')
    inc = os.path.join(repo, 'compmech', 'include')
    inc_h = hashlib.sha256()
    for f in sorted(os.listdir(inc)):
        inc_h.update(open(os.path.join(inc, f), 'rb').read())
    inc_h = inc_h.hexdigest()[:16]
    os.makedirs(os.path.join(CACHE, 'obj'), exist_ok=True)
    jobs, objs = [], {}
    for f in sorted(os.listdir(src)):
        if not f.endswith('.c'):
            continue
        p = os.path.join(src, f)
        o = os.path.join(CACHE, 'obj', '%s_%s_%s.o' % (f[:-2], sha(p)[:20], inc_h))
        objs[f] = o
        if not os.path.exists(o):
            jobs.append(['gcc', '-O0', '-fPIC', '-I', inc, '-c', p, '-o', o + '.tmp%d' % os.getpid()])
    if jobs:
        with ThreadPoolExecutor(16) as ex:
            list(ex.map(_run, jobs))
        for j in jobs:
            os.replace(j[-1], j[-1].rsplit('.tmp', 1)[0])
    return objs


def bardell_lib(repo=None):
    """ctypes-loadable shared library with every exported function of lib/src (current tree)."""
    objs = lib_objects(repo)
    key = hashlib.sha256(' '.join(sorted(objs.values())).encode()).hexdigest()[:20]
    so = os.path.join(CACHE, 'libbardell_ref_%s.so' % key)
    if not os.path.exists(so):
        tmp = so + '.tmp%d' % os.getpid()
        _run(['gcc', '-shared', '-o', tmp] + sorted(objs.values()) + ['-lm'])
        os.replace(tmp, so)
    return so


class _Shadow(importlib.abc.MetaPathFinder):
    def __init__(self, table):
        self.table = table

    def find_spec(self, name, path=None, target=None):
        so = self.table.get(name)
        if so is None:
            return None
        loader = importlib.machinery.ExtensionFileLoader(name, so)
        return importlib.util.spec_from_file_location(name, so, loader=loader)


def _build_ext(name, info, objs, repo, outdir):
    import numpy
    gen = os.path.join(repo, info['pyx'][:-4] + '.c')
    so = os.path.join(outdir, name + EXT_SUFFIX)
    if os.path.exists(so):
        return so
    o = os.path.join(outdir, name + '.o')
    flags = ['-O1', '-fPIC', '-fopenmp', '-w', '-fno-strict-aliasing']
    if info['nl']:
        flags.append('-ffast-math')
    _run(['gcc'] + flags + ['-I', os.path.join(repo, 'compmech', 'include'),
                           '-I', sysconfig.get_paths()['include'], '-I', numpy.get_include(),
                           '-c', gen, '-o', o])
    tmp = so + '.tmp%d' % os.getpid()
    _run(['gcc', '-shared', '-fopenmp', '-o', tmp, o] + [objs[f] for f in info['lib']] + ['-lm'])
    os.replace(tmp, so)
    os.remove(o)
    return so


_STATUS = None


def prepare(verbose=True):
    """Called once per process before compmech is imported.  Returns a status dict."""
    global _STATUS
    if _STATUS is not None:
        return _STATUS
    repo = REPO
    if repo not in sys.path[:1]:
        sys.path.insert(0, repo)
    status = dict(repo=repo, rebuilt=[], stale=[], notes=[])
    env_table = os.environ.get('VERIF_SHADOW_TABLE')
    if env_table is not None:           # worker process: parent already did the work
        table = json.loads(env_table)
        if table:
            sys.meta_path.insert(0, _Shadow(table))
        _STATUS = status
        return status
    pinned = json.load(open(PINNED)) if os.path.exists(PINNED) else {}
    cur = current_hashes(repo)
    exts = parse_setup(repo)
    changed = {p for p in cur if pinned.get(p) != cur[p]}
    lib_changed = sorted(p for p in changed if p.startswith(('compmech/lib/src/', 'compmech/include/')))
    rebuild = {}
    for name, info in exts.items():
        if not info['pyx']:
            continue
        gen = info['pyx'][:-4] + '.c'
        gen_changed = gen in changed and gen in cur
        uses_changed_lib = any('compmech/lib/src/' + f in lib_changed for f in info['lib']) or \
            (info['lib'] and any(p.startswith('compmech/include/') for p in lib_changed))
        if gen_changed or uses_changed_lib:
            if gen in cur:
                rebuild[name] = info
            else:
                status['notes'].append('cannot rebuild %s: generated C file missing' % name)
        if info['pyx'] in changed and not gen_changed:
            status['stale'].append(info['pyx'])
    for p in changed:
        if p.endswith(('.pxi', '.pxd')):
            status['stale'].append(p)
    table = {}
    if rebuild:
        objs = lib_objects(repo)
        h = hashlib.sha256()
        for name in sorted(rebuild):
            h.update(name.encode())
            h.update(cur[rebuild[name]['pyx'][:-4] + '.c'].encode())
            for f in rebuild[name]['lib']:
                h.update(objs[f].encode())
        outdir = os.path.join(CACHE, 'ext', h.hexdigest()[:20])
        os.makedirs(outdir, exist_ok=True)
        with ThreadPoolExecutor(16) as ex:
            sos = list(ex.map(lambda n: _build_ext(n, rebuild[n], objs, repo, outdir), sorted(rebuild)))
        table = dict(zip(sorted(rebuild), sos))
        status['rebuilt'] = sorted(rebuild)
        sys.meta_path.insert(0, _Shadow(table))
    os.environ['VERIF_SHADOW_TABLE'] = json.dumps(table)
    if verbose:
        if lib_changed:
            print('BINDER: C sources differ from pinned tree: %s' % ', '.join(lib_changed))
        if status['rebuilt']:
            print('BINDER: rebuilt and shadow-loaded %d extensions: %s' % (len(table), ', '.join(sorted(table))))
        for p in status['stale']:
            print('BINDER: WARNING %s was edited but Cython is not available in this sandbox; '
                  'the stale compiled kernel is used (as the test-suite would)' % p)
    _STATUS = status
    return status


if __name__ == '__main__':
    if '--pin' in sys.argv:
        pin()
    else:
        print(json.dumps(prepare(), indent=1))
        print(bardell_lib())
