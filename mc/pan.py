"""Shared configuration alphabets, lattice enumeration and builders (package Panel / reference PanelRef)."""
import itertools
from fractions import Fraction as Fr

import numpy as np

from .core import seed_eps
from .ref import panel as rp, laminate as rl

M6 = (142.5e9, 8.7e9, 0.28, 5.1e9, 4.6e9, 3.3e9)
MISO = (71.0e9, 71.0e9, 0.33)
PLYT = 0.125e-3
MODELS = {'plate': 'plate_clt_donnell_bardell', 'plate_w': 'plate_clt_donnell_bardell_w',
          'cpanel': 'cpanel_clt_donnell_bardell', 'kpanel': 'kpanel_clt_donnell_bardell'}


def lam_alphabet(seed):
    g = 17.3 + seed_eps(seed, 11)
    return {'uni0': ([0.], M6), 'cross_sym': ([0., 90., 90., 0.], M6), 'cross_unsym': ([0., 90.], M6),
            'angle': ([45., -45.], M6), 'general': ([30., -60., g], M6), 'iso': ([0.], MISO)}


OFFSETS = {'0': 0.0, '+d': 0.2e-3, '-d': -0.2e-3}
SUBS = {'none': None, 'full': ('0', '1'), 'lo': ('0', '3/10'), 'mid': ('3/10', '11/20'), 'hi': ('11/20', '1'),
        'wide': ('0', '3/5')}     # with geometry g2 (a < b): y2 lies between a and b
FLAGS = rp.FLAG_NAMES


def flag_base(name, seed=0):
    fl = rp.default_flags()
    if name == 'SSSS':
        pass
    elif name == 'CCCC':
        for k in fl:
            fl[k] = 0.0
    elif name == 'FFFF':
        for k in fl:
            fl[k] = 1.0
    elif name == 'CFFF':
        for k in fl:
            fl[k] = 0.0 if k[1] == '1' and k.endswith('x') else 1.0
    elif name == 'generic':
        for i, k in enumerate(sorted(fl)):
            fl[k] = 0.35 + 1.3 * ((i * 0.6180339887 + 0.137 * (1 + seed_eps(seed, 20 + i, 0.3))) % 1.0)
    else:
        raise ValueError(name)
    return fl


def flags_of(cfg):
    fl = flag_base(cfg.get('fbase', 'SSSS'), cfg.get('seed', 0))
    for k in cfg.get('ftoggle', []):
        fl[k] = 0.0 if fl[k] != 0.0 else 1.0
    return fl


def lattice(coords, k, base=None):
    """All assignments that differ from ``base`` (default: first letters) in at most k coordinates."""
    names = list(coords)
    base = dict(base or {n: coords[n][0] for n in names})
    out = []
    for j in range(k + 1):
        for ks in itertools.combinations(names, j):
            alts = [[v for v in coords[q] if v != base[q]] for q in ks]
            for vals in itertools.product(*alts):
                c = dict(base)
                c.update(zip(ks, vals))
                c['_ndev'] = j
                out.append(c)
    return out


def laminate_of(cfg):
    stack, mat = lam_alphabet(cfg.get('seed', 0))[cfg.get('lam', 'general')]
    return list(stack), mat, OFFSETS[cfg.get('offset', '0')]


def make_panel(cfg):
    """compmech Panel for a configuration dict."""
    from compmech.panel import Panel
    stack, mat, off = laminate_of(cfg)
    model = cfg.get('model', 'plate')
    kw = dict(a=cfg.get('a', 2.0), b=cfg.get('b', 1.0), stack=stack, plyt=PLYT, laminaprop=mat,
              m=cfg.get('m', 4), n=cfg.get('n', 4), offset=off, mu=cfg.get('mu', 1500.))
    if model in ('cpanel', 'kpanel'):
        kw['r'] = cfg.get('r', 3.0)
    if model == 'kpanel':
        kw['alphadeg'] = cfg.get('alphadeg', 0.0)
    p = Panel(**kw)
    if model == 'plate_w':
        p.model = MODELS['plate_w']
    for k, v in flags_of(cfg).items():
        setattr(p, k, v)
    sub = SUBS[cfg.get('sub', 'none')]
    if sub is not None:
        p.y1 = float(Fr(sub[0])) * p.b
        p.y2 = float(Fr(sub[1])) * p.b
    pre = cfg.get('preload')
    if pre:
        p.Nxx_cte, p.Nyy_cte, p.Nxy_cte = pre
    return p


class RefModel:
    """Reference for one configuration; sums over the meridional sections for conical panels."""

    def __init__(self, base, parts):
        self.base, self.parts = base, parts

    def _sum(self, name, *a, **k):
        return sum(getattr(p, name)(*a, **k) for p in self.parts)

    def k0(self, F): return self._sum('k0', F)
    def k0_scale(self, F): return self._sum('k0_scale', F)
    def kG(self, *a): return self._sum('kG', *a)
    def kM(self, *a, **k): return self._sum('kM', *a, **k)
    def kA(self, *a, **k): return self._sum('kA', *a, **k)
    def cA(self, *a): return self._sum('cA', *a)
    def scale_of(self, terms): return self._sum('scale_of', terms)
    def active(self): return self.base.active()

    def __getattr__(self, k):
        return getattr(self.base, k)

    # ---- two-tier comparison support (sub-interval / section tables)
    def uses_subinterval_tables(self):
        return any(p.uses_subinterval_tables() for p in self.parts)

    def with_package_tables(self):
        return RefModel(self.base, [p.with_package_tables() for p in self.parts])

    def natural(self):
        return RefModel(self.base, [p.natural() for p in self.parts])


def make_ref(cfg, sigma=-1.0, twist=1.0):
    stack, mat, off = laminate_of(cfg)
    model = cfg.get('model', 'plate')
    sub = SUBS[cfg.get('sub', 'none')]
    alpha = np.deg2rad(cfg.get('alphadeg', 0.0)) if model == 'kpanel' else 0.0
    ref = rp.PanelRef(cfg.get('a', 2.0), cfg.get('b', 1.0), cfg.get('m', 4), cfg.get('n', 4), flags_of(cfg),
                      r=cfg.get('r', 3.0) if model in ('cpanel', 'kpanel') else None,
                      dofs=('w',) if model == 'plate_w' else rp.DOFS3,
                      ycuts=(Fr(sub[0]), Fr(sub[1])) if sub else None, alpharad=alpha, sigma=sigma, twist=twist)
    lam = rl.abd(stack, [PLYT] * len(stack), [mat] * len(stack), off)
    parts = ref.sections() if model == 'kpanel' else [ref]
    return RefModel(ref, parts), lam


PLACES = {'none': (0, 0, 0), 'shift': (6, 6, 15), 'tail': (0, 0, 9), 'head': (9, 9, 0)}


def placement(cfg, nloc):
    r0, c0, extra = PLACES[cfg.get('place', 'none')]
    size = max(r0, c0) + nloc + extra
    return size, r0, c0


def dense(M):
    return M.toarray() if hasattr(M, 'toarray') else np.asarray(M)


def worst(got, ref, scale, rtol, atol=0.0):
    """Largest violation ratio of |got-ref| <= rtol*(scale + 1e-3*sqrt(scale_ii*scale_jj)) + atol; returns (ratio, index).
    The second term is a floor for entries that vanish by orthogonality (their own summand scale is ~0)."""
    d = np.sqrt(np.abs(np.diag(scale))) if scale.ndim == 2 and scale.shape[0] == scale.shape[1] else 0.0
    floor = 1e-3 * np.outer(d, d) if scale.ndim == 2 and scale.shape[0] == scale.shape[1] else 0.0
    tol = rtol * (scale + floor) + atol + 1e-300
    err = np.abs(got - ref) / tol
    idx = np.unravel_index(np.argmax(err), err.shape)
    return float(err[idx]), tuple(int(i) for i in idx)


STRICT_RTOL = 1e-9
SIG_TABLES = 'C10:sub-interval-integral-tables-lose-accuracy-by-cancellation'


def tiered(ref, got, exp, S_cond, rtol, build, mask=None):
    """Two-tier comparison for matrices assembled from sub-interval / section integral tables.
    build(refvariant) -> (matrix, scale) assembled by the caller from a reference variant (package tables / natural scales).
    Returns (status, ratio, index, info):
      'violation' : outside the floating-point envelope of the generated table functions (tier 2, as before), or inside it but NOT
                    reproduced by the reference assembled from the package's own table values;
      'known'     : inside the envelope, farther than STRICT_RTOL of the natural entry scale from the exact value, and reproduced to
                    rtol by the reference assembled from the package's own table values (deviation explained by the tables alone);
      'ok'        : within STRICT_RTOL of the natural scale (and within the envelope)."""
    ratio, idx = worst(got, exp, S_cond, rtol)
    if ratio > 1:
        return 'violation', ratio, idx, {}
    if not ref.uses_subinterval_tables():
        return 'ok', ratio, idx, {}
    _, Nat = build(ref.natural())
    Nat = np.abs(Nat)
    if mask is not None:
        Nat = mask(Nat)
    err = np.abs(got - exp)
    tol = STRICT_RTOL * Nat + 1e-300
    r1 = err / tol
    i1 = np.unravel_index(np.argmax(r1), r1.shape)
    # consistency of the kernel with the package's own tables (always demanded)
    Epk, Spk = build(ref.with_package_tables())
    if mask is not None:
        Epk, Spk = mask(Epk), mask(Spk)
    # 1e-3 of the envelope: the extension modules and the ctypes library are separate compilations of the generated functions,
    # their rounding noise differs by a few eps of the conditioning scale (observed <= 7e-5 of the envelope)
    r2, i2 = worst(got, Epk, Spk + 1e-3 * S_cond, rtol)
    if r2 > 1:
        return 'violation', float(r2), i2, dict(kind='kernel differs from the same formula evaluated with the package\'s own table values',
                                                got=float(got[i2]), with_package_tables=float(Epk[i2]))
    if r1[i1] <= 1:
        return 'ok', ratio, idx, {}
    return 'known', float(r1[i1]), tuple(int(v) for v in i1), dict(rel_to_natural_scale=float(err[i1] / (Nat[i1] + 1e-300)))


REUSE_COORDS = ('offset', 'geom', 'r', 'alpha', 'fbase', 'ord', 'sub', 'preload', 'mu')
REUSE_ATTRS = ('a', 'b', 'r', 'alphadeg', 'offset', 'm', 'n', 'y1', 'y2', 'Nxx_cte', 'Nyy_cte', 'Nxy_cte', 'mu') + tuple(FLAGS)


def retarget(p_old, cfg_new):
    """Change the definition attributes of an existing Panel object to those of cfg_new (same model family)."""
    donor = make_panel(cfg_new)
    for att in REUSE_ATTRS:
        if att in ('r', 'alphadeg') and cfg_new.get('model') not in ('cpanel', 'kpanel'):
            continue
        setattr(p_old, att, getattr(donor, att))
    return p_old


def neighbour(lp_full, coords, lp):
    """Pick one deviated re-usable coordinate of the lattice point and return the neighbouring point with that
    coordinate moved back to (or away from) its default; None if the point has no re-usable deviation."""
    devs = [q for q in lp if q in REUSE_COORDS or q.startswith('t_')]
    if not devs:
        return None, None
    q = sorted(devs)[-1]
    nb = dict(lp_full)
    nb[q] = coords[q][0] if coords[q][0] != nb[q] else coords[q][1]
    return nb, q
