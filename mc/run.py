"""CLI:  python -m mc.run <ID> [--tier quick|thorough] [--replay file]   |   --setup"""
import argparse
import importlib
import json
import os
import sys
import time


def main():
    ap = argparse.ArgumentParser()
    ap.add_argument('pid', nargs='?')
    ap.add_argument('--tier', default=os.environ.get('VERIF_TIER', 'quick'), choices=['quick', 'thorough'])
    ap.add_argument('--replay')
    ap.add_argument('--setup', action='store_true')
    a = ap.parse_args()
    seed = int(os.environ.get('VERIF_SEED', '0') or 0)
    from . import build, core
    if a.setup:
        st = build.prepare()
        so = build.bardell_lib()
        from .ref import bardell
        bardell.tables(verbose=True)
        print('setup ok:', so)
        return 0
    if not a.pid:
        ap.error('property id required')
    pid = a.pid.upper()
    modname = 'mc.props.' + pid.lower()
    if a.replay:
        build.prepare()
        mod = importlib.import_module(modname)
        core._init_worker(modname, build.REPO)
        rec = json.load(open(a.replay))
        res = core._work(rec['case'])
        for f in res['fails']:
            print('REPLAY-FAIL property=%s what=%s' % (pid, f['what']))
            print('   detail: %s' % json.dumps(f['detail'])[:1500])
        print('replay: %d failure(s)' % len(res['fails']))
        return 1 if res['fails'] else 0
    mod = importlib.import_module(modname)
    if hasattr(mod, 'run'):
        return mod.run(pid, modname, a.tier, seed)
    return core.standard_run(pid, modname, a.tier, seed)


if __name__ == '__main__':
    sys.exit(main())
