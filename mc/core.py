"""Shared runner: parallel exhaustive map over enumerated cases, evidence, replay files, known findings."""
import hashlib
import importlib
import json
import math
import multiprocessing as mp
import os
import sys
import time
import traceback

import numpy as np

from . import build

HOME = build.HOME
# VERIF_OUT: trial runs against scratch trees (seeded changes, refactorings) write their evidence / replay files elsewhere
OUT_HOME = os.environ.get('VERIF_OUT') or ('/verif' if (os.path.isdir('/verif') and HOME.startswith('/verif')) else HOME)
KNOWN = os.path.join(HOME, 'known_findings.json')


def jsonable(o):
    if isinstance(o, dict):
        return {str(k): jsonable(v) for k, v in o.items()}
    if isinstance(o, (list, tuple, set, frozenset)):
        return [jsonable(v) for v in o]
    if isinstance(o, np.ndarray):
        return jsonable(o.tolist())
    if isinstance(o, (np.integer,)):
        return int(o)
    if isinstance(o, (np.floating,)):
        return jsonable(float(o))
    if isinstance(o, (np.bool_,)):
        return bool(o)
    if isinstance(o, complex):
        return [o.real, o.imag]
    if isinstance(o, float):
        if math.isnan(o) or math.isinf(o):
            return repr(o)
        return o
    if isinstance(o, (str, int, bool)) or o is None:
        return o
    return repr(o)


def digest(o):
    return hashlib.sha256(json.dumps(jsonable(o), sort_keys=True).encode()).hexdigest()[:16]


def seed_eps(seed, k=0, scale=1.0):
    """Deterministic perturbation in (-scale, scale) from the seed: used only to move irrational letters."""
    h = hashlib.sha256(('%d:%d' % (seed, k)).encode()).digest()
    return (int.from_bytes(h[:8], 'big') / 2.0 ** 64 * 2 - 1) * scale


def fail(what, sig=None, **detail):
    """A failure record produced by a worker. ``sig`` (string) is what a known finding is matched on."""
    return dict(what=what, sig=sig, detail=jsonable(detail))


# ----------------------------------------------------------------------------- worker side
_MOD = None


def _init_worker(modname, repo):
    global _MOD
    os.environ['VERIF_REPO'] = repo
    build.prepare(verbose=False)
    import warnings
    warnings.filterwarnings('ignore')
    if mp.current_process().name != 'MainProcess':
        try:        # die with the parent (a killed check must not leave workers behind)
            import ctypes, signal
            ctypes.CDLL('libc.so.6').prctl(1, signal.SIGKILL)
            if os.getppid() == 1:
                os._exit(1)
        except Exception:
            pass
        sys.stdout = open(os.devnull, 'w')        # the library prints progress messages unconditionally in places
    _MOD = importlib.import_module(modname)
    if hasattr(_MOD, 'init_worker'):
        _MOD.init_worker()


def _work(case):
    t = time.time()
    try:
        res = _MOD.check_case(case)
    except Exception:
        res = dict(fails=[fail('check raised an unexpected exception', sig=None,
                               traceback=traceback.format_exc()[-4000:])])
    if isinstance(res, list):
        res = dict(fails=res)
    res.setdefault('fails', [])
    res['case'] = case
    res['t'] = time.time() - t
    return res


# ----------------------------------------------------------------------------- driver side
class Runner:
    def __init__(self, pid, modname, tier, seed):
        self.pid, self.modname, self.tier, self.seed = pid, modname, tier, seed
        self.t0 = time.time()
        self.status = build.prepare()
        self.mod = importlib.import_module(modname)
        self.results = []
        self.known = [k for k in (json.load(open(KNOWN)) if os.path.exists(KNOWN) else [])
                      if k.get('property') == pid]

    def pmap(self, cases, procs=None, chunksize=None):
        cases = list(cases)
        procs = procs or int(os.environ.get('VERIF_PROCS', '16'))
        procs = max(1, min(procs, len(cases)))
        if procs == 1 or os.environ.get('VERIF_SERIAL'):
            _init_worker(self.modname, build.REPO)
            return [_work(c) for c in cases]
        from concurrent.futures import ProcessPoolExecutor
        from concurrent.futures.process import BrokenProcessPool
        ctx = mp.get_context('spawn')
        results = [None] * len(cases)
        todo = list(range(len(cases)))
        isolate = False
        while todo:
            kw = dict(max_workers=procs, mp_context=ctx, initializer=_init_worker, initargs=(self.modname, build.REPO))
            if isolate:
                kw['max_tasks_per_child'] = 1        # one fresh process per case: a crash is attributed to exactly one case
            with ProcessPoolExecutor(**kw) as ex:
                futs = {i: ex.submit(_work, cases[i]) for i in todo}
                broken = []
                for i, fu in futs.items():
                    try:
                        results[i] = fu.result()
                    except BrokenProcessPool:
                        broken.append(i)
                    except Exception:
                        results[i] = dict(case=cases[i], t=0.0, fails=[fail('worker failed', sig=None, traceback=traceback.format_exc()[-2000:])])
            if not broken:
                break
            if isolate:
                # with one process per case the pool breaks at the first crashing case; later ones are reported broken too: retry them
                first = broken[0]
                results[first] = dict(case=cases[first], t=0.0, fails=[fail(
                    'the library crashed the interpreter (segmentation fault / abort) while this case was executed', sig=None)])
                broken = broken[1:]
            isolate = True
            todo = broken
        return results

    def is_known(self, f):
        for k in self.known:
            if k.get('status') == 'known' and f.get('sig') and f['sig'] == k.get('signature'):
                return k
        return None

    def finish(self, results, coverage, level='model_checking', assumptions=None):
        violations, known_hits = [], {}
        for r in results:
            for f in r['fails']:
                k = self.is_known(f)
                if k is not None:
                    known_hits.setdefault(k['signature'], [k, 0])[1] += 1
                else:
                    violations.append((r['case'], f))
        for sig, (k, n) in sorted(known_hits.items()):
            print('KNOWN-FINDING: property=%s %s [%d occurrences in this run]' % (self.pid, k['what'], n))
        if os.environ.get('VERIF_DUMP'):
            with open(os.environ['VERIF_DUMP'], 'w') as fh:
                for case, f in violations:
                    fh.write(json.dumps(jsonable(dict(case=case, what=f['what'], sig=f.get('sig'), detail=f.get('detail')))) + '\n')
        seen = set()
        rdir = os.path.join(OUT_HOME, 'replay', self.pid)
        if os.path.isdir(rdir):          # replay files always describe the latest run of this check
            for fn in os.listdir(rdir):
                if fn.endswith('.json'):
                    os.remove(os.path.join(rdir, fn))
        nviol = 0
        for case, f in violations:
            key = digest([case, f['what'], f.get('sig')])
            if key in seen:
                continue
            seen.add(key)
            nviol += 1
            if nviol > 40:
                continue
            os.makedirs(rdir, exist_ok=True)
            path = os.path.join(rdir, key + '.json')
            rcase = (f.get('detail') or {}).get('replay_case') or case
            with open(path, 'w') as fh:
                json.dump(jsonable(dict(property=self.pid, case=rcase, failure=f)), fh, indent=1)
            print('VIOLATION property=%s replay=%s' % (self.pid, path))
            print('   what: %s' % f['what'])
            d = json.dumps(f.get('detail'))
            print('   case: %s' % json.dumps(jsonable(case))[:600])
            print('   detail: %s' % d[:900])
        if nviol > 40:
            print('(... %d further violations not written out)' % (nviol - 40))
        if nviol:
            hist = {}
            for case, f in violations:
                hist[f['what']] = hist.get(f['what'], 0) + 1
            for w, n in sorted(hist.items(), key=lambda kv: -kv[1]):
                print('   %5d x %s' % (n, w[:200]))
        assumptions = list(assumptions or [])
        assumptions.append('compmech imported from %s (working tree)' % build.REPO)
        if self.status['rebuilt']:
            assumptions.append('extensions rebuilt from edited C sources and shadow-loaded: %s'
                               % ', '.join(self.status['rebuilt']))
        for p in self.status['stale']:
            assumptions.append('kernel source %s edited; no Cython in sandbox; stale binary in use' % p)
        cov = dict(coverage)
        cov.setdefault('known_finding_occurrences', {s: n for s, (k, n) in known_hits.items()})
        ev = dict(property_id=self.pid, tier=self.tier, seed=self.seed, level=level, coverage=jsonable(cov),
                  assumptions=assumptions, wall_s=round(time.time() - self.t0, 2), violations=nviol)
        os.makedirs(os.path.join(OUT_HOME, 'evidence'), exist_ok=True)
        with open(os.path.join(OUT_HOME, 'evidence', self.pid + '.json'), 'w') as fh:
            json.dump(ev, fh, indent=1)
        print('%s tier=%s seed=%d: states=%s transitions=%s executions=%s violations=%d known=%d wall=%.1fs' % (
            self.pid, self.tier, self.seed, cov.get('states'), cov.get('transitions'),
            cov.get('traces_validated_against_impl'), nviol, len(known_hits), time.time() - self.t0))
        return 1 if nviol else 0


def standard_run(pid, modname, tier, seed):
    """Default driver: module offers cases(tier, seed) and check_case(case) [worker]; optional
    summarize(results) -> extra coverage keys.  Each result may carry 'states', 'transitions',
    'execs', 'nontrivial' counts and an 'outcome' label."""
    rn = Runner(pid, modname, tier, seed)
    cases = list(rn.mod.cases(tier, seed))
    results = rn.pmap(cases, procs=getattr(rn.mod, 'PROCS', None))
    states = sum(r.get('states', 1) for r in results)
    trans = sum(r.get('transitions', 0) for r in results)
    execs = sum(r.get('execs', 1) for r in results)
    nontriv = sum(r.get('nontrivial', 1 if r.get('nontrivial_flag', True) else 0) for r in results)
    outcomes = {}
    for r in results:
        for o in (r.get('outcomes') or ([r['outcome']] if 'outcome' in r else [])):
            outcomes[o] = outcomes.get(o, 0) + 1
    step = max(1, len(cases) // 6)
    cov = dict(states=states, transitions=max(trans, 1), traces_validated_against_impl=execs,
               evaluations=execs, distinct_nontrivial=nontriv,
               rule=getattr(rn.mod, 'RULE', ''), samples=cases[::step][:8], exhaustive=True,
               cases=len(cases), distinct_outcomes=len(outcomes),
               outcome_histogram=dict(sorted(outcomes.items(), key=lambda kv: -kv[1])[:40]),
               slowest_case_s=round(max([r['t'] for r in results] or [0]), 2))
    if hasattr(rn.mod, 'summarize'):
        extra = dict(rn.mod.summarize(results, tier, seed) or {})
        sf = extra.pop('fails', None)
        if sf:
            results = list(results) + [dict(case=dict(kind='whole-run condition'), t=0.0, fails=sf)]
        cov.update(extra)
    return rn.finish(results, cov, assumptions=getattr(rn.mod, 'ASSUMPTIONS', None))
