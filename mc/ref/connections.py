"""Reference penalty-connection matrices: Hessian of  kt/2 Int |jump of interface displacement|^2 + kr/2 Int (jump of
interface rotation)^2  evaluated by Gauss quadrature with each panel's own displacement series (PanelRef).
Interface kinematics (as documented for the package's connection kinds):
  SSycte / SSxcte : (u,v,w) and the rotation about the interface line are continuous across the common line
  BFycte          : base p1 (line y=ycte1) to perpendicular flange p2 (edge y=ycte2): u1=u2, v1=w2, w1=-v2, w1,y=w2,y
  BFxcte          : base p1 (line x=xcte1) to perpendicular flange p2 (edge x=xcte2): u1=w2, v1=v2, w1=-u2, w1,x=w2,x
  SB              : face to face over the common area, p1's field taken at distance dsb from its mid-surface:
                    u1 + dsb w1,x = u2, v1 + dsb w1,y = v2, w1 = w2   (translations only)
"""
import numpy as np


def _rows(ref, xs, ys):
    """dict name -> (npts, size) operator matrices for u, v, w, w,x, w,y of a PanelRef at points."""
    B = ref.basis_at(xs, ys)
    n, m, nd = ref.n, ref.m, ref.nd
    out = {}
    for name, dof, dx, dy in (('u', 'u', 0, 0), ('v', 'v', 0, 0), ('w', 'w', 0, 0), ('wx', 'w', 1, 0), ('wy', 'w', 0, 1)):
        Fx, Gy = B[dof]
        M = np.zeros((len(xs), n, m, nd))
        M[:, :, :, ref.dofs.index(dof)] = np.einsum('pi,pj->pji', Fx[dx], Gy[dy]) * (2 / ref.a) ** dx * (2 / ref.b) ** dy
        out[name] = M.reshape(len(xs), ref.size)
    return out


def conn_hessian(kind, ref1, ref2, kt, kr, pos1=None, pos2=None, dsb=0.0, ngauss=24):
    """Returns K11, K12, K22 (dense) for the connection of two PanelRef objects."""
    g, w = np.polynomial.legendre.leggauss(ngauss)
    if kind in ('SSycte', 'BFycte'):
        xs = (g + 1) * ref1.a / 2
        W = w * ref1.a / 2
        R1 = _rows(ref1, xs, np.full_like(xs, pos1))
        R2 = _rows(ref2, (g + 1) * ref2.a / 2, np.full_like(xs, pos2))
        if kind == 'SSycte':
            pairs = [(R1['u'], R2['u'], kt), (R1['v'], R2['v'], kt), (R1['w'], R2['w'], kt), (R1['wy'], R2['wy'], kr)]
        else:
            pairs = [(R1['u'], R2['u'], kt), (R1['v'], R2['w'], kt), (R1['w'], -R2['v'], kt), (R1['wy'], R2['wy'], kr)]
    elif kind in ('SSxcte', 'BFxcte'):
        ys = (g + 1) * ref1.b / 2
        W = w * ref1.b / 2
        R1 = _rows(ref1, np.full_like(ys, pos1), ys)
        R2 = _rows(ref2, np.full_like(ys, pos2), (g + 1) * ref2.b / 2)
        if kind == 'SSxcte':
            pairs = [(R1['u'], R2['u'], kt), (R1['v'], R2['v'], kt), (R1['w'], R2['w'], kt), (R1['wx'], R2['wx'], kr)]
        else:
            pairs = [(R1['u'], R2['w'], kt), (R1['v'], R2['v'], kt), (R1['w'], -R2['u'], kt), (R1['wx'], R2['wx'], kr)]
    elif kind == 'SB':
        GX, GY = np.meshgrid(g, g, indexing='ij')
        WW = np.outer(w, w).ravel()
        xi, eta = GX.ravel(), GY.ravel()
        W = WW * ref1.a * ref1.b / 4
        R1 = _rows(ref1, (xi + 1) * ref1.a / 2, (eta + 1) * ref1.b / 2)
        R2 = _rows(ref2, (xi + 1) * ref2.a / 2, (eta + 1) * ref2.b / 2)
        pairs = [(R1['u'] + dsb * R1['wx'], R2['u'], kt), (R1['v'] + dsb * R1['wy'], R2['v'], kt), (R1['w'], R2['w'], kt)]
    else:
        raise ValueError(kind)
    K11 = np.zeros((ref1.size, ref1.size)); K12 = np.zeros((ref1.size, ref2.size)); K22 = np.zeros((ref2.size, ref2.size))
    for A, B_, k in pairs:
        WA = A * W[:, None]
        K11 += k * WA.T.dot(A)
        K12 -= k * WA.T.dot(B_)
        K22 += k * (B_ * W[:, None]).T.dot(B_)
    return K11, K12, K22
