"""Reference for complete cone/cylinder shells.  As the property prescribes, the oracle is the package's OWN linear strain
field: the columns of the strain operator B are the odd part (eps(e_k) - eps(-e_k))/2 of commons.fstrain for unit amplitude
vectors (the odd part of a quadratic strain measure is exactly its linear part), integrated with Gauss-Legendre points along
the meridian and a uniform rule around the circumference (exact for the trigonometric series)."""
import numpy as np


def shell_of(cfg):
    from compmech.conecyl import ConeCyl
    cc = ConeCyl()
    cc.model = cfg['model']
    cc.m1, cc.m2, cc.n2 = cfg.get('m1', 2), cfg.get('m2', 2), cfg.get('n2', 2)
    cc.alphadeg = cfg.get('alphadeg', 0.0)
    cc.r2 = cfg.get('r2', 0.25)
    cc.H = cfg.get('H', 0.4)
    cc.s = cfg.get('s', 40)
    cc.nx, cc.nt = cfg.get('nx', 24), cfg.get('nt', 24)
    if cfg['model'].startswith('iso_') or cfg.get('iso'):
        cc.laminaprop = None
        cc.stack = []
        cc.E11, cc.nu, cc.h = 71.0e9, 0.33, 1.0e-3
    else:
        cc.stack = list(cfg.get('stack', [30., -60., 17.3]))
        cc.plyt = cfg.get('plyt', 0.125e-3)
        cc.laminaprop = cfg.get('laminaprop', (142.5e9, 8.7e9, 0.28, 5.1e9, 4.6e9, 3.3e9))
    for k in ('kuBot', 'kvBot', 'kwBot', 'kphixBot', 'kphitBot', 'kuTop', 'kvTop', 'kwTop', 'kphixTop', 'kphitTop', 'bc',
              'pdC', 'pdT', 'pdLA', 'tLAdeg', 'uTM', 'thetaTdeg', 'betadeg', 'Fc', 'P', 'T', 'P_inc', 'T_inc', 'ni_method', 'ni_num_cores', 'c0', 'm0', 'n0',
              'r1', 'L'):
        if k in cfg:
            setattr(cc, k, cfg[k])
    return cc


def strain_operator(cc, xs, ts):
    """B[p, k, col]: linear strain component k at point p for unit amplitude col (full vector incl. prescribed amplitudes)."""
    from compmech.conecyl import modelDB
    md = modelDB.db[cc.model]
    size = cc.get_size()
    kin = 0 if 'donnell' in cc.model else 1
    fstrain = md['commons'].fstrain
    e_num = md['e_num']
    B = np.zeros((len(xs), e_num, size))
    for col in range(size):
        e = np.zeros(size); e[col] = 1.0
        ep = np.asarray(fstrain(e, cc.sina, cc.cosa, cc.tLArad, xs, ts, cc.r2, cc.L, cc.m1, cc.m2, cc.n2, None, 0, 0, cc.funcnum, kin, 1))
        em = np.asarray(fstrain(-e, cc.sina, cc.cosa, cc.tLArad, xs, ts, cc.r2, cc.L, cc.m1, cc.m2, cc.n2, None, 0, 0, cc.funcnum, kin, 1))
        B[:, :, col] = 0.5 * (ep - em).reshape(len(xs), e_num)
    return B


def energy_hessian(cc, F, ngx=48, ngt=None):
    ngt = ngt or (4 * cc.n2 + 8)
    gx, wx = np.polynomial.legendre.leggauss(ngx)
    xs1 = 0.5 * cc.L * (gx + 1)
    wx = wx * 0.5 * cc.L
    ts1 = -np.pi + 2 * np.pi * np.arange(ngt) / ngt
    XS, TS = np.meshgrid(xs1, ts1, indexing='ij')
    W = np.outer(wx, np.full(ngt, 2 * np.pi / ngt))
    r = cc.r2 + XS * cc.sina
    xs, ts = np.ascontiguousarray(XS.ravel()), np.ascontiguousarray(TS.ravel())
    B = strain_operator(cc, xs, ts)
    wgt = (W * r).ravel()
    F = np.asarray(F, dtype=float)
    return np.einsum('p,pks,kl,plt->st', wgt, B, F, B, optimize=True)


def edge_hessian(cc, ngt=None):
    """Hessian of the elastic edge restraint energy 1/2 k Int field^2 r dtheta at top (x=0) and bottom (x=L)."""
    from compmech.conecyl import modelDB
    md = modelDB.db[cc.model]
    size = cc.get_size()
    ngt = ngt or (4 * cc.n2 + 8)
    ts1 = -np.pi + 2 * np.pi * np.arange(ngt) / ngt
    K = np.zeros((size, size))
    fuvw = md['commons'].fuvw
    for x, r, ks in ((0.0, cc.r2, (cc.kuTop, cc.kvTop, cc.kwTop, cc.kphixTop, cc.kphitTop)),
                     (cc.L, cc.r1, (cc.kuBot, cc.kvBot, cc.kwBot, cc.kphixBot, cc.kphitBot))):
        xs = np.full(ngt, x)
        Phi = np.zeros((5, ngt, size))
        for col in range(size):
            e = np.zeros(size); e[col] = 1.0
            out = fuvw(e, cc.m1, cc.m2, cc.n2, cc.alpharad, cc.r2, cc.L, cc.tLArad, xs, ts1, 1)
            for f in range(5):
                Phi[f, :, col] = np.asarray(out[f])
        for f, k in enumerate(ks):
            if k:
                K += k * r * (2 * np.pi / ngt) * Phi[f].T.dot(Phi[f])
    return K
