"""Reference Ritz panel model (no compmech import).

Displacement series (dof numbering 3*(j*m+i)+dof as in the package's field kernel):
    u = sum c[3(jm+i)+0] f_i^u(xi) g_j^u(eta),  v, w alike;  xi = 2x/a-1, eta = 2y/b-1
Each of u, v, w has its own eight edge flags (t/r at both ends, along x and along y).

All *linear* matrices are assembled from separable terms  coef * X[(da,db)] (x) Y[(dc,dd)]  where X, Y are exact
1-D integral tables of Bardell polynomial derivatives (mc/ref/bardell.py).  The list of terms is *derived* from
the strain operator / kinetic energy / work expressions, not from the expanded formulas of the kernels.
Non-linear quantities use Gauss-Legendre quadrature (numpy's leggauss) of the energy density.
"""
from fractions import Fraction as Fr

import numpy as np

from . import bardell as rb

DOFS3 = ('u', 'v', 'w')


class PanelRef:
    def __init__(self, a, b, m, n, flags, r=None, dofs=DOFS3, y1=None, y2=None, ycuts=None, alpharad=0.0, sigma=-1.0, twist=1.0):
        """flags: dict like {'u1tx':..} (24 entries; missing -> package defaults SSSS).
        y-subinterval given either as floats (y1,y2) or exact fractions of b (ycuts=(Fr,Fr))."""
        self.a, self.b, self.m, self.n, self.r = float(a), float(b), m, n, r
        self.dofs = dofs
        self.nd = len(dofs)
        self.twist = twist
        self.alpharad, self.sigma = alpharad, sigma     # cone: r(x) = r + sigma*sin(alpha)*x (package geometry: sigma=-1)
        self.Xscale = None
        self.flags = dict(default_flags())
        self.flags.update(flags or {})
        self.size = self.nd * m * n
        self.fx = {d: rb.flagvec(*[self.flags['%s%s' % (d, s)] for s in ('1tx', '1rx', '2tx', '2rx')], n=m) for d in dofs}
        self.fy = {d: rb.flagvec(*[self.flags['%s%s' % (d, s)] for s in ('1ty', '1ry', '2ty', '2ry')], n=n) for d in dofs}
        T = rb.tables()
        self.X = {k: v[:m, :m] for k, v in T.items()}
        if ycuts is not None:
            e1, e2 = 2 * Fr(ycuts[0]) - 1, 2 * Fr(ycuts[1]) - 1
            tb = {(da, db): rb.table(da, db, e1, e2) for da in range(3) for db in range(3)}
            self.Y = {k: v[0][:n, :n] for k, v in tb.items()}
            self.Yscale = {k: v[1][:n, :n] for k, v in tb.items()}      # conditioning of the sub-interval evaluation
            self.eta1, self.eta2 = float(e1), float(e2)
        elif y1 is not None and y2 is not None:
            e1, e2 = 2 * y1 / self.b - 1, 2 * y2 / self.b - 1
            tb = {(da, db): rb.table(da, db, Fr(e1), Fr(e2)) for da in range(3) for db in range(3)}
            self.Y = {k: v[0][:n, :n] for k, v in tb.items()}
            self.Yscale = {k: v[1][:n, :n] for k, v in tb.items()}
            self.eta1, self.eta2 = e1, e2
        else:
            self.Y = {k: v[:n, :n] for k, v in T.items()}
            self.Yscale = {k: np.abs(v) for k, v in self.Y.items()}
            self.eta1, self.eta2 = -1.0, 1.0

    # ------------------------------------------------------------------ generic separable bilinear form
    def bilinear(self, terms):
        """terms: iterable of (dofA, dofB, coef, dxA, dxB, dyA, dyB):
        K[A,B] += coef * int D^dxA f_A D^dxB f_B dxi * int D^dyA g_A D^dyB g_B deta   (flags included)."""
        m, n, nd = self.m, self.n, self.nd
        K = np.zeros((n, m, nd, n, m, nd))          # [j, i, dof, l, k, dof]
        acc = {}
        for (dA, dB, coef, dxA, dxB, dyA, dyB) in terms:
            if coef == 0:
                continue
            acc[(dA, dB, dxA, dxB, dyA, dyB)] = acc.get((dA, dB, dxA, dxB, dyA, dyB), 0.0) + coef
        for (dA, dB, dxA, dxB, dyA, dyB), coef in acc.items():
            X = self.X[(dxA, dxB)] * np.outer(self.fx[dA], self.fx[dB])        # [i,k]
            Y = self.Y[(dyA, dyB)] * np.outer(self.fy[dA], self.fy[dB])        # [j,l]
            ia, ib = self.dofs.index(dA), self.dofs.index(dB)
            K[:, :, ia, :, :, ib] += coef * np.einsum('ik,jl->jilk', X, Y)
        return K.reshape(self.size, self.size)

    # ------------------------------------------------------------------ strain operator (linear part)
    def strain_terms(self):
        """dof -> list of (strain index p, scale, dx, dy) for the linear Donnell operator in (xi,eta) derivatives."""
        a, b, r = self.a, self.b, self.r
        t = {'u': [(0, 2 / a, 1, 0), (2, 2 / b, 0, 1)],
             'v': [(1, 2 / b, 0, 1), (2, 2 / a, 1, 0)],
             'w': [(3, -4 / a ** 2, 2, 0), (4, -4 / b ** 2, 0, 2), (5, -2 * 4 / (a * b), 1, 1)]}
        if r:
            t['w'] = t['w'] + [(1, np.cos(self.alpharad) / r, 0, 0)]
        if r and self.alpharad:
            sg = self.sigma * np.sin(self.alpharad) / r
            t['u'] = t['u'] + [(1, sg, 0, 0)]
            t['v'] = t['v'] + [(2, -sg, 0, 0)]
            t['w'] = t['w'] + [(4, -sg * 2 / a, 1, 0), (5, self.twist * sg * 2 / b, 0, 1)]
        return {d: t[d] for d in self.dofs}

    def sections(self, nsec=41, rbot=None, bbot=None):
        """Piecewise-constant-radius approximation used by the conical kernels: per section the radius and
        the width are frozen at the section mid-point.  The *geometry* r = rbot - sin(alpha) x is the package's."""
        tabs = rb.section_tables(nsec)
        rbot = self.r if rbot is None else rbot
        bbot = self.b if bbot is None else bbot
        out = []
        for k in range(nsec):
            xm = self.a * (k + 0.5) / nsec
            sec = PanelRef.__new__(PanelRef)
            sec.__dict__.update(self.__dict__)
            sec.r = rbot - np.sin(self.alpharad) * xm
            sec.b = sec.r * bbot / rbot
            sec.X = {key: v[0][k][:self.m, :self.m] for key, v in tabs.items()}
            sec.Xscale = {key: v[1][k][:self.m, :self.m] for key, v in tabs.items()}
            # the kernel's own floating-point section limits: x1 = a*section/s; xi1 = 2*x1/a - 1
            sec.xsec = (2 * (self.a * float(k) / nsec) / self.a - 1., 2 * (self.a * float(k + 1) / nsec) / self.a - 1.)
            out.append(sec)
        return out

    def k0(self, F):
        F = np.asarray(F, dtype=float)
        st = self.strain_terms()
        jac = self.a * self.b / 4
        terms = []
        for dA in self.dofs:
            for dB in self.dofs:
                for (p, sA, dxA, dyA) in st[dA]:
                    for (q, sB, dxB, dyB) in st[dB]:
                        terms.append((dA, dB, jac * F[p, q] * sA * sB, dxA, dxB, dyA, dyB))
        return self.bilinear(terms)

    def k0_scale(self, F):
        """Magnitude of the summands entering k0 entries (for tolerances)."""
        F = np.abs(np.asarray(F, dtype=float))
        st = self.strain_terms()
        jac = self.a * self.b / 4
        terms = []
        for dA in self.dofs:
            for dB in self.dofs:
                for (p, sA, dxA, dyA) in st[dA]:
                    for (q, sB, dxB, dyB) in st[dB]:
                        terms.append((dA, dB, jac * F[p, q] * abs(sA * sB), dxA, dxB, dyA, dyB))
        sv = PanelRef.__new__(PanelRef)
        sv.__dict__.update(self.__dict__)
        sv.X = dict(self.Xscale) if self.Xscale is not None else {k: np.abs(v) for k, v in self.X.items()}
        sv.Y = dict(self.Yscale)
        sv.fx = {k: np.abs(v) for k, v in self.fx.items()}
        sv.fy = {k: np.abs(v) for k, v in self.fy.items()}
        return sv.bilinear(terms)

    # ------------------------------------------------------------------ variants used by the two-tier comparison
    def uses_subinterval_tables(self):
        return (self.eta1, self.eta2) != (-1.0, 1.0) or self.Xscale is not None

    def with_package_tables(self):
        """Copy whose sub-interval (y) and section (x) tables are the values returned by the package's own integral_*_12 functions."""
        sv = PanelRef.__new__(PanelRef)
        sv.__dict__.update(self.__dict__)
        if (self.eta1, self.eta2) != (-1.0, 1.0):
            pk = rb.package_tables(self.eta1, self.eta2)
            sv.Y = {k: v[:self.n, :self.n] for k, v in pk.items()}
            sv.Yscale = {k: np.abs(v) for k, v in sv.Y.items()}
        if getattr(self, 'xsec', None) is not None:
            pk = rb.package_tables(*self.xsec)
            sv.X = {k: v[:self.m, :self.m] for k, v in pk.items()}
            sv.Xscale = {k: np.abs(v) for k, v in sv.X.items()}
        return sv

    def natural(self):
        """Copy whose tables are the natural (Cauchy-Schwarz) scales of the entries and whose flags are absolute values: bilinear()
        then gives, per matrix entry, the magnitude a backward-stable evaluation of the integrals is accurate relative to."""
        sv = PanelRef.__new__(PanelRef)
        sv.__dict__.update(self.__dict__)
        sv.X = rb.norm_table(self.X)
        sv.Y = rb.norm_table(self.Y)
        sv.Xscale = dict(sv.X) if self.Xscale is not None else None
        sv.Yscale = dict(sv.Y)
        sv.fx = {k: np.abs(v) for k, v in self.fx.items()}
        sv.fy = {k: np.abs(v) for k, v in self.fy.items()}
        return sv

    def scale_of(self, terms):
        sv = PanelRef.__new__(PanelRef)
        sv.__dict__.update(self.__dict__)
        sv.X = dict(self.Xscale) if self.Xscale is not None else {k: np.abs(v) for k, v in self.X.items()}
        sv.Y = dict(self.Yscale)
        sv.fx = {k: np.abs(v) for k, v in self.fx.items()}
        sv.fy = {k: np.abs(v) for k, v in self.fy.items()}
        return sv.bilinear([(t[0], t[1], abs(t[2])) + tuple(t[3:]) for t in terms])

    def kG(self, Nxx, Nyy, Nxy):
        a, b = self.a, self.b
        jac = a * b / 4
        sx, sy = 2 / a, 2 / b
        return self.bilinear([('w', 'w', jac * Nxx * sx * sx, 1, 1, 0, 0),
                              ('w', 'w', jac * Nyy * sy * sy, 0, 0, 1, 1),
                              ('w', 'w', jac * Nxy * sx * sy, 1, 0, 0, 1),
                              ('w', 'w', jac * Nxy * sx * sy, 0, 1, 1, 0)])

    def kM(self, mu, h, d, coupling_sign=-1.0):
        """Kinetic-energy Hessian of (u - z w,x, v - z w,y, w), z in [d-h/2, d+h/2].
        coupling_sign=-1 is the stated kinematics; +1 reproduces material points moving as u + z w,x."""
        a, b = self.a, self.b
        jac = a * b / 4
        sx, sy = 2 / a, 2 / b
        I0, I1, I2 = mu * h, mu * h * d, mu * (h ** 3 / 12 + h * d * d)
        terms = [('w', 'w', jac * I0, 0, 0, 0, 0),
                 ('w', 'w', jac * I2 * sx * sx, 1, 1, 0, 0), ('w', 'w', jac * I2 * sy * sy, 0, 0, 1, 1)]
        if 'u' in self.dofs:
            cs = coupling_sign
            terms += [('u', 'u', jac * I0, 0, 0, 0, 0), ('v', 'v', jac * I0, 0, 0, 0, 0),
                      ('u', 'w', cs * jac * I1 * sx, 0, 1, 0, 0), ('w', 'u', cs * jac * I1 * sx, 1, 0, 0, 0),
                      ('v', 'w', cs * jac * I1 * sy, 0, 0, 0, 1), ('w', 'v', cs * jac * I1 * sy, 0, 0, 1, 0)]
        return self.bilinear(terms)

    def kA(self, beta, gamma, flow='x'):
        """Stiffness-side form of p = -beta dw/dflow + gamma w:  beta int w_A dw_B/dflow - gamma int w_A w_B."""
        a, b = self.a, self.b
        jac = a * b / 4
        if flow == 'x':
            t = [('w', 'w', jac * beta * 2 / a, 0, 1, 0, 0)]
        else:
            t = [('w', 'w', jac * beta * 2 / b, 0, 0, 0, 1)]
        t.append(('w', 'w', -jac * gamma, 0, 0, 0, 0))
        return self.bilinear(t)

    def kA_parts(self, beta, gamma, flow='x'):
        return self.kA(beta, 0.0, flow), self.kA(0.0, gamma, flow)

    def cA(self, aeromu):
        return -aeromu * self.bilinear([('w', 'w', self.a * self.b / 4, 0, 0, 0, 0)]) * 1j

    # ------------------------------------------------------------------ fields at points
    def basis_at(self, xs, ys):
        """dict dof -> (Fx[d] (npts, m) for d=0,1,2 ; Gy[d] (npts, n))"""
        xi = 2 * np.asarray(xs, dtype=float) / self.a - 1
        eta = 2 * np.asarray(ys, dtype=float) / self.b - 1
        out = {}
        for dof in self.dofs:
            Fx = [rb.eval_all(xi, d, self.m) * self.fx[dof][None, :] for d in range(3)]
            Gy = [rb.eval_all(eta, d, self.n) * self.fy[dof][None, :] for d in range(3)]
            out[dof] = (Fx, Gy)
        return out

    def _cmat(self, c, dof):
        return np.asarray(c, dtype=float).reshape(self.n, self.m, self.nd)[:, :, self.dofs.index(dof)]   # [j,i]

    def field(self, c, xs, ys, dof, dx=0, dy=0, B=None):
        B = B or self.basis_at(xs, ys)
        Fx, Gy = B[dof]
        C = self._cmat(c, dof)
        return np.einsum('pi,pj,ji->p', Fx[dx], Gy[dy], C) * (2 / self.a) ** dx * (2 / self.b) ** dy

    def uvw(self, c, xs, ys):
        B = self.basis_at(xs, ys)
        w = self.field(c, xs, ys, 'w', B=B)
        wx = self.field(c, xs, ys, 'w', 1, 0, B)
        wy = self.field(c, xs, ys, 'w', 0, 1, B)
        if 'u' in self.dofs:
            u = self.field(c, xs, ys, 'u', B=B)
            v = self.field(c, xs, ys, 'v', B=B)
        else:
            u = v = np.zeros_like(w)
        return u, v, w, -wx, -wy

    def strain(self, c, xs, ys, nl=False, nl_sum_of_squares=False):
        B = self.basis_at(xs, ys)
        f = lambda dof, dx=0, dy=0: self.field(c, xs, ys, dof, dx, dy, B)
        wx, wy = f('w', 1, 0), f('w', 0, 1)
        if 'u' in self.dofs:
            exx, eyy, gxy = f('u', 1, 0), f('v', 0, 1), f('u', 0, 1) + f('v', 1, 0)
        else:
            exx = eyy = gxy = np.zeros_like(wx)
        if self.r:
            eyy = eyy + f('w') / self.r
        if nl:
            if nl_sum_of_squares:
                # the wrong formula of known finding C11-nl: sum over terms of (term)^2 instead of (sum)^2
                Fx, Gy = B['w']
                C = self._cmat(c, 'w')
                tx = np.einsum('pi,pj,ji->pji', Fx[1], Gy[0], C) * (2 / self.a)
                ty = np.einsum('pi,pj,ji->pji', Fx[0], Gy[1], C) * (2 / self.b)
                exx = exx + 0.5 * np.sum(tx ** 2, axis=(1, 2))
                eyy = eyy + 0.5 * np.sum(ty ** 2, axis=(1, 2))
                gxy = gxy + np.sum(tx * ty, axis=(1, 2))
            else:
                exx = exx + 0.5 * wx ** 2
                eyy = eyy + 0.5 * wy ** 2
                gxy = gxy + wx * wy
        kxx, kyy, kxy = -f('w', 2, 0), -f('w', 0, 2), -2 * f('w', 1, 1)
        return np.array([exx, eyy, gxy, kxx, kyy, kxy])

    # ------------------------------------------------------------------ non-linear energy by quadrature
    def gauss(self, nx, ny):
        px, wx = np.polynomial.legendre.leggauss(nx)
        py, wy = np.polynomial.legendre.leggauss(ny)
        e1, e2 = self.eta1, self.eta2
        py = 0.5 * (e2 - e1) * py + 0.5 * (e2 + e1)
        wy = wy * 0.5 * (e2 - e1)
        XI, ETA = np.meshgrid(px, py, indexing='ij')
        W = np.outer(wx, wy) * self.a * self.b / 4
        return (XI.ravel() + 1) * self.a / 2, (ETA.ravel() + 1) * self.b / 2, W.ravel()

    def Bmat(self, xs, ys):
        """Linear strain operator at points: (npts, 6, size); and slope operators Gx, Gy: (npts, size)."""
        B = self.basis_at(xs, ys)
        npts = len(xs)
        m, n, nd = self.m, self.n, self.nd
        Bm = np.zeros((npts, 6, n, m, nd))
        st = self.strain_terms()
        for dof in self.dofs:
            Fx, Gy = B[dof]
            k = self.dofs.index(dof)
            for (p, s, dx, dy) in st[dof]:
                Bm[:, p, :, :, k] += s * np.einsum('pi,pj->pji', Fx[dx], Gy[dy])
        Fx, Gy = B['w']
        kw = self.dofs.index('w')
        Gxm = np.zeros((npts, n, m, nd)); Gym = np.zeros((npts, n, m, nd))
        Gxm[:, :, :, kw] = (2 / self.a) * np.einsum('pi,pj->pji', Fx[1], Gy[0])
        Gym[:, :, :, kw] = (2 / self.b) * np.einsum('pi,pj->pji', Fx[0], Gy[1])
        return Bm.reshape(npts, 6, self.size), Gxm.reshape(npts, self.size), Gym.reshape(npts, self.size)

    def nl_state(self, c, F, nx, ny):
        xs, ys, W = self.gauss(nx, ny)
        Bm, Gx, Gy = self.Bmat(xs, ys)
        c = np.asarray(c, dtype=float)
        wx, wy = Gx.dot(c), Gy.dot(c)
        eps = np.einsum('pks,s->pk', Bm, c)
        eps[:, 0] += 0.5 * wx ** 2
        eps[:, 1] += 0.5 * wy ** 2
        eps[:, 2] += wx * wy
        F = np.asarray(F, dtype=float)
        Fp = F if F.ndim == 3 else np.broadcast_to(F, (len(xs), 6, 6))
        N = np.einsum('pkl,pl->pk', Fp, eps)
        # d eps / d c
        dE = Bm.copy()
        dE[:, 0, :] += wx[:, None] * Gx
        dE[:, 1, :] += wy[:, None] * Gy
        dE[:, 2, :] += wx[:, None] * Gy + wy[:, None] * Gx
        return xs, ys, W, Bm, Gx, Gy, eps, N, dE, Fp

    def energy(self, c, F, nx, ny):
        xs, ys, W, Bm, Gx, Gy, eps, N, dE, Fp = self.nl_state(c, F, nx, ny)
        return 0.5 * np.sum(W * np.einsum('pk,pk->p', eps, N))

    def fint(self, c, F, nx, ny):
        xs, ys, W, Bm, Gx, Gy, eps, N, dE, Fp = self.nl_state(c, F, nx, ny)
        return np.einsum('p,pks,pk->s', W, dE, N)

    def kT(self, c, F, nx, ny):
        xs, ys, W, Bm, Gx, Gy, eps, N, dE, Fp = self.nl_state(c, F, nx, ny)
        KL = np.einsum('p,pks,pkl,plt->st', W, dE, Fp, dE, optimize=True)
        KG = np.einsum('p,ps,pt->st', W * N[:, 0], Gx, Gx) + np.einsum('p,ps,pt->st', W * N[:, 1], Gy, Gy) + \
            np.einsum('p,ps,pt->st', W * N[:, 2], Gx, Gy) + np.einsum('p,ps,pt->st', W * N[:, 2], Gy, Gx)
        return KL + KG, KL, KG

    def kG_from_state(self, c, F, nx, ny, nl=False):
        """Geometric stiffness with N = F eps of the Ritz state c (linear strains unless nl)."""
        xs, ys, W = self.gauss(nx, ny)
        Bm, Gx, Gy = self.Bmat(xs, ys)
        c = np.asarray(c, dtype=float)
        eps = np.einsum('pks,s->pk', Bm, c)
        if nl:
            wx, wy = Gx.dot(c), Gy.dot(c)
            eps[:, 0] += 0.5 * wx ** 2; eps[:, 1] += 0.5 * wy ** 2; eps[:, 2] += wx * wy
        F = np.asarray(F, dtype=float)
        Fp = F if F.ndim == 3 else np.broadcast_to(F, (len(xs), 6, 6))
        N = np.einsum('pkl,pl->pk', Fp, eps)
        KG = np.einsum('p,ps,pt->st', W * N[:, 0], Gx, Gx) + np.einsum('p,ps,pt->st', W * N[:, 1], Gy, Gy) + \
            np.einsum('p,ps,pt->st', W * N[:, 2], Gx, Gy) + np.einsum('p,ps,pt->st', W * N[:, 2], Gy, Gx)
        return KG, N

    def k0_quadrature(self, F, nx, ny):
        xs, ys, W = self.gauss(nx, ny)
        Bm, Gx, Gy = self.Bmat(xs, ys)
        F = np.asarray(F, dtype=float)
        Fp = F if F.ndim == 3 else np.broadcast_to(F, (len(xs), 6, 6))
        return np.einsum('p,pks,pkl,plt->st', W, Bm, Fp, Bm, optimize=True)

    def active(self):
        """Boolean mask of amplitudes whose basis function is not annihilated by a zero flag."""
        act = np.zeros((self.n, self.m, self.nd), dtype=bool)
        for k, d in enumerate(self.dofs):
            act[:, :, k] = np.outer(self.fy[d] != 0, self.fx[d] != 0)
        return act.ravel()


def default_flags():
    fl = {}
    for d in 'uvw':
        for e in ('1', '2'):
            for ax in 'xy':
                fl['%s%st%s' % (d, e, ax)] = 0.0
                fl['%s%sr%s' % (d, e, ax)] = 1.0 if d == 'w' else 0.0
    return fl


FLAG_NAMES = sorted(default_flags())


def embed(K, size, row0, col0):
    out = np.zeros((size, size))
    n = K.shape[0]
    out[row0:row0 + n, col0:col0 + n] = K
    return out
