"""Reference model of Bardell's hierarchical functions: exact rational polynomials.

Built from the defining formula (theory/func/bardell/bardell.py in the repository):
  f_1..f_4 : cubic Hermite polynomials (multiplied by the edge flags t1, r1, t2, r2)
  f_r, r>=5: sum_{n=0}^{r//2} (-1)^n (2r-2n-7)!! / (2^n n! (r-2n-1)!) xi^(r-2n-1)
No compmech import.  Index i below is zero based (i = r-1), as in the C code.
"""
import os
import pickle
from fractions import Fraction as Fr
from math import factorial

import numpy as np

NMAX = 30
DEG = NMAX            # polynomials have degree <= NMAX-1; arrays of length NMAX


def _df(n):           # double factorial for n >= -1
    if n <= 0:
        return 1
    r = 1
    while n > 1:
        r *= n
        n -= 2
    return r


def exact_polys(nmax=NMAX):
    """List of nmax coefficient lists (ascending powers, Fractions), flags = 1."""
    P = [[Fr(1, 2), Fr(-3, 4), Fr(0), Fr(1, 4)],
         [Fr(1, 8), Fr(-1, 8), Fr(-1, 8), Fr(1, 8)],
         [Fr(1, 2), Fr(3, 4), Fr(0), Fr(-1, 4)],
         [Fr(-1, 8), Fr(-1, 8), Fr(1, 8), Fr(1, 8)]]
    for r in range(5, nmax + 1):
        c = [Fr(0)] * r
        for n in range(0, r // 2 + 1):
            p = r - 2 * n - 1
            if p < 0:
                continue
            c[p] += Fr((-1) ** n * _df(2 * r - 2 * n - 7), 2 ** n * factorial(n) * factorial(p))
        P.append(c)
    return [c + [Fr(0)] * (nmax - len(c)) for c in P]


def deriv(c, k=1):
    c = list(c)
    for _ in range(k):
        c = [c[p] * p for p in range(1, len(c))] + [Fr(0)]
    return c


def horner(c, x):
    r = Fr(0)
    for a in reversed(c):
        r = r * x + a
    return r


_POLY = None


def polys():
    """[d][i] -> exact coefficient list of the d-th derivative of f_i (flags=1)."""
    global _POLY
    if _POLY is None:
        P0 = exact_polys()
        _POLY = [P0, [deriv(c, 1) for c in P0], [deriv(c, 2) for c in P0]]
    return _POLY


def coef_float(d=0, n=NMAX):
    """(n, NMAX) float array of coefficients (correctly rounded from the exact ones)."""
    P = polys()[d]
    return np.array([[float(a) for a in P[i]] for i in range(n)])


def _int_matrix(d):
    """Coefficient matrix of derivative d as Python-int object array and its common denominator."""
    P = polys()[d]
    den = 1
    for c in P:
        for a in c:
            den = den * a.denominator // _gcd(den, a.denominator)
    M = np.empty((NMAX, NMAX), dtype=object)
    for i in range(NMAX):
        for p in range(NMAX):
            M[i, p] = int(P[i][p] * den)
    return M, den


def _gcd(a, b):
    while b:
        a, b = b, a % b
    return a


_IM = {}


def int_matrix(d):
    if d not in _IM:
        _IM[d] = _int_matrix(d)
    return _IM[d]


def hankel_from_moments(mu):
    """mu: list of 2*NMAX-1 Fractions (moment of xi^p); returns int Hankel matrix and denominator."""
    den = 1
    for a in mu:
        den = den * a.denominator // _gcd(den, a.denominator)
    H = np.empty((NMAX, NMAX), dtype=object)
    for k in range(NMAX):
        for l in range(NMAX):
            H[k, l] = int(mu[k + l] * den)
    return H, den


def moments(x1, x2):
    x1, x2 = Fr(x1), Fr(x2)
    return [(x2 ** (p + 1) - x1 ** (p + 1)) / (p + 1) for p in range(2 * NMAX - 1)]


def table(da, db, x1=-1, x2=1):
    """Exact T[i,j] = int_{x1}^{x2} D^da f_i * D^db f_j dxi (flags = 1), returned as float array
    together with a float array S[i,j] = int-free conditioning scale sum_p |P_ij[p]| (|x1|^(p+1)+|x2|^(p+1))/(p+1)."""
    A, dA = int_matrix(da)
    B, dB = int_matrix(db)
    H, dH = hankel_from_moments(moments(x1, x2))
    T = A.dot(H).dot(B.T)
    den = dA * dB * dH
    Tf = np.array([[float(Fr(int(T[i, j]), den)) for j in range(NMAX)] for i in range(NMAX)])
    # conditioning scale (float is enough)
    Af, Bf = np.abs(coef_float(da)), np.abs(coef_float(db))
    ax1, ax2 = abs(float(x1)), abs(float(x2))
    mu = np.array([(ax1 ** (p + 1) + ax2 ** (p + 1)) / (p + 1) for p in range(2 * NMAX - 1)])
    Hs = np.array([[mu[k + l] for l in range(NMAX)] for k in range(NMAX)])
    S = Af.dot(Hs).dot(Bf.T)
    return Tf, S


def compose_int(db, c0, c1):
    """Int coefficient matrix (and denominator) of g_j(xi) = (D^db f_j)(c0 + c1 xi)."""
    c0, c1 = Fr(c0), Fr(c1)
    P = polys()[db]
    # powers of (c0 + c1 xi)
    pw = [[Fr(1)] + [Fr(0)] * (NMAX - 1)]
    for p in range(1, NMAX):
        prev = pw[-1]
        cur = [Fr(0)] * NMAX
        for q in range(NMAX):
            if prev[q] != 0:
                cur[q] += prev[q] * c0
                if q + 1 < NMAX:
                    cur[q + 1] += prev[q] * c1
        pw.append(cur)
    G = []
    for j in range(NMAX):
        g = [Fr(0)] * NMAX
        for p in range(NMAX):
            a = P[j][p]
            if a != 0:
                for q in range(NMAX):
                    if pw[p][q] != 0:
                        g[q] += a * pw[p][q]
        G.append(g)
    den = 1
    for g in G:
        for a in g:
            den = den * a.denominator // _gcd(den, a.denominator)
    M = np.empty((NMAX, NMAX), dtype=object)
    for j in range(NMAX):
        for q in range(NMAX):
            M[j, q] = int(G[j][q] * den)
    Gf = np.array([[float(a) for a in g] for g in G])
    return M, den, Gf


def table_c0c1(da, db, c0, c1):
    """Exact T[i,j] = int_{-1}^{1} D^da f_i(xi) * (D^db f_j)(c0 + c1 xi) dxi, and conditioning scale."""
    A, dA = int_matrix(da)
    G, dG, Gf = compose_int(db, c0, c1)
    H, dH = hankel_from_moments(moments(-1, 1))
    T = A.dot(H).dot(G.T)
    den = dA * dG * dH
    Tf = np.array([[float(Fr(int(T[i, j]), den)) for j in range(NMAX)] for i in range(NMAX)])
    # scale: how the C code evaluates is unknown (expanded in c0, c1); use sum |a_ik| m_kl |b_jp| (|c0|+|c1|)^p
    Af = np.abs(coef_float(da))
    Bf = np.abs(coef_float(db))
    s = abs(float(c0)) + abs(float(c1))
    mu = np.array([2.0 / (p + 1) for p in range(2 * NMAX - 1)])
    Hs = np.array([[mu[k + l] for l in range(NMAX)] for k in range(NMAX)])
    Bs = Bf * np.array([max(s, 1.0) ** p for p in range(NMAX)])[None, :]
    S = Af.dot(Hs).dot(Bs.T)
    return Tf, S


# ---------------------------------------------------------------- cached full-interval float tables
_TAB = None


def tables(verbose=False):
    """dict (da, db) -> float (30, 30) exact full-interval tables for all 0<=da,db<=2 (flags=1)."""
    global _TAB
    if _TAB is not None:
        return _TAB
    from .. import build
    path = os.path.join(build.CACHE, 'bardell_tables_v1.pkl')
    if os.path.exists(path):
        try:
            _TAB = pickle.load(open(path, 'rb'))
            return _TAB
        except Exception:
            pass
    T = {}
    for da in range(3):
        for db in range(3):
            T[(da, db)] = table(da, db)[0]
    os.makedirs(build.CACHE, exist_ok=True)
    tmp = path + '.tmp%d' % os.getpid()
    pickle.dump(T, open(tmp, 'wb'))
    os.replace(tmp, path)
    if verbose:
        print('exact Bardell tables computed')
    _TAB = T
    return T


_SEC = {}


def section_tables(nsec=41):
    """[(da,db)] -> (T[sec], S[sec]) arrays of shape (nsec, 30, 30): exact tables over the x-sections
    [2k/nsec-1, 2(k+1)/nsec-1] used by the conical-panel kernels, with conditioning scales."""
    if nsec in _SEC:
        return _SEC[nsec]
    from .. import build
    path = os.path.join(build.CACHE, 'bardell_sections_%d_v1.pkl' % nsec)
    if os.path.exists(path):
        try:
            _SEC[nsec] = pickle.load(open(path, 'rb'))
            return _SEC[nsec]
        except Exception:
            pass
    out = {}
    for da in range(3):
        for db in range(3):
            Ts, Ss = [], []
            for k in range(nsec):
                T, S = table(da, db, Fr(2 * k, nsec) - 1, Fr(2 * (k + 1), nsec) - 1)
                Ts.append(T); Ss.append(S)
            out[(da, db)] = (np.array(Ts), np.array(Ss))
    os.makedirs(build.CACHE, exist_ok=True)
    tmp = path + '.tmp%d' % os.getpid()
    pickle.dump(out, open(tmp, 'wb'))
    os.replace(tmp, path)
    _SEC[nsec] = out
    return out


def eval_all_cond(xi, d=0, n=NMAX, flags=(1, 1, 1, 1)):
    """Conditioning of the evaluation of D^d f_i(xi): sum_p |a_ip| |xi|^p (what a floating-point evaluation of the polynomial is accurate
    relative to; equals |value| away from zeros of the polynomial up to a modest factor, stays finite at its zeros)."""
    xi = np.atleast_1d(np.asarray(xi, dtype=float))
    C = np.abs(coef_float(d, n))
    out = np.zeros((xi.size, n))
    ax = np.abs(xi)
    for p in range(C.shape[1] - 1, -1, -1):
        out = out * ax[:, None] + C[:, p][None, :]
    return out * np.abs(flagvec(*flags, n=n))[None, :]


# ---------------------------------------------------------------- the package's own sub-interval tables (explained-by gate)
_PK = {}
_PKFAM = {(0, 0): 'integral_ff_12', (0, 1): 'integral_ffxi_12', (0, 2): 'integral_ffxixi_12', (1, 1): 'integral_fxifxi_12',
          (1, 2): 'integral_fxifxixi_12', (2, 2): 'integral_fxixifxixi_12'}
_PKLIB = None


def _pklib():
    global _PKLIB
    if _PKLIB is None:
        import ctypes
        from .. import build
        L = ctypes.CDLL(build.bardell_lib())
        for nme in _PKFAM.values():
            getattr(L, nme).restype = ctypes.c_double
            getattr(L, nme).argtypes = [ctypes.c_double, ctypes.c_double, ctypes.c_int, ctypes.c_int] + [ctypes.c_double] * 8
        _PKLIB = L
    return _PKLIB


def package_tables(x1, x2, n=NMAX):
    """dict (da,db) -> (n,n) values returned by the package's sub-interval functions integral_*_12(x1, x2, i, j, flags=1) of the
    CURRENT lib/src (compiled by the binder).  Used only to attribute a deviation to the floating-point evaluation of these
    generated functions; never as the expected value of a property."""
    key = (float(x1), float(x2), n)
    if key in _PK:
        return _PK[key]
    L = _pklib()
    one = [1.0] * 8
    out = {}
    for (da, db), nme in _PKFAM.items():
        fn = getattr(L, nme)
        T = np.array([[fn(key[0], key[1], i, j, *one) for j in range(n)] for i in range(n)])
        out[(da, db)] = T
        if da != db:
            out[(db, da)] = T.T.copy()
    if len(_PK) > 400:
        _PK.clear()
    _PK[key] = out
    return out


def norm_table(Tdict):
    """Natural scale of each entry of the nine tables of one interval: N[(da,db)][i,j] = sqrt(int (D^da f_i)^2 * int (D^db f_j)^2)
    (Cauchy-Schwarz bound of the exact entry; what a backward-stable evaluation is accurate relative to)."""
    out = {}
    for (da, db) in Tdict:
        out[(da, db)] = np.sqrt(np.abs(np.outer(np.diag(Tdict[(da, da)]), np.diag(Tdict[(db, db)]))))
    return out


def flagvec(t1, r1, t2, r2, n=NMAX):
    v = np.ones(n)
    v[:4] = [t1, r1, t2, r2][:min(4, n)]
    return v


def eval_all(xi, d=0, n=NMAX, flags=(1, 1, 1, 1)):
    """Float evaluation of D^d f_i(xi) for i<n at array xi: shape (len(xi), n).  Uses the exact
    coefficients; for |xi|<=1 and n<=12 the Horner evaluation is accurate to ~1e-14."""
    xi = np.atleast_1d(np.asarray(xi, dtype=float))
    C = coef_float(d, n)
    out = np.zeros((xi.size, n))
    for p in range(C.shape[1] - 1, -1, -1):
        out = out * xi[:, None] + C[:, p][None, :]
    return out * flagvec(*flags, n=n)[None, :]
