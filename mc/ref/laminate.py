"""Reference classical lamination theory: ply stiffness by *tensor rotation* (4th-order einsum), through-thickness
integration by 2-point Gauss quadrature per ply.  No compmech import."""
import numpy as np


def complete_material(prop):
    """3-, 6- or 9-entry tuple -> (E1, E2, nu12, G12, G13, G23)."""
    prop = tuple(float(v) for v in prop)
    if len(prop) == 3:
        E, _, nu = prop
        G = E / (2 * (1 + nu))
        return (E, E, nu, G, G, G)
    return prop[:6]


def ply_tensors(prop, theta_deg):
    """Plane-stress stiffness 3x3 (Voigt: xx, yy, xy with engineering shear) and transverse shear 2x2
    in (xz, yz) order, both in laminate axes, for a ply whose 1-axis is rotated by theta from x."""
    E1, E2, nu12, G12, G13, G23 = complete_material(prop)
    nu21 = nu12 * E2 / E1
    den = 1 - nu12 * nu21
    C = np.zeros((2, 2, 2, 2))
    C[0, 0, 0, 0] = E1 / den
    C[1, 1, 1, 1] = E2 / den
    C[0, 0, 1, 1] = C[1, 1, 0, 0] = nu12 * E2 / den
    for (i, j, k, l) in [(0, 1, 0, 1), (0, 1, 1, 0), (1, 0, 0, 1), (1, 0, 1, 0)]:
        C[i, j, k, l] = G12
    t = np.deg2rad(theta_deg)
    R = np.array([[np.cos(t), -np.sin(t)], [np.sin(t), np.cos(t)]])   # columns = material axes in laminate coords
    Cl = np.einsum('ip,jq,kr,ls,pqrs->ijkl', R, R, R, R, C)
    idx = [(0, 0), (1, 1), (0, 1)]
    Q = np.array([[Cl[a[0], a[1], b[0], b[1]] for b in idx] for a in idx])
    Gm = np.diag([G13, G23])
    Gl = R.dot(Gm).dot(R.T)                                          # (xz, yz)
    return Q, Gl


def abd(stack, plyts, props, offset=0.0):
    """Returns A, B, D (3x3) and E (2x2 in the package's (yz, xz) ordering), ABD (6x6), ABDE (8x8)."""
    h = float(sum(plyts))
    z0 = -h / 2 + offset
    A = np.zeros((3, 3)); B = np.zeros((3, 3)); D = np.zeros((3, 3)); Es = np.zeros((2, 2))
    g = 1 / np.sqrt(3.0)
    for th, t, pr in zip(stack, plyts, props):
        Q, G = ply_tensors(pr, th)
        zm, hh = z0 + t / 2, t / 2
        for s in (-g, g):
            z = zm + s * hh
            A += Q * hh
            B += Q * hh * z
            D += Q * hh * z * z
            Es += G * hh
        z0 += t
    E = np.array([[Es[1, 1], Es[0, 1]], [Es[0, 1], Es[0, 0]]])
    ABD = np.block([[A, B], [B, D]])
    ABDE = np.zeros((8, 8))
    ABDE[:6, :6] = ABD
    ABDE[6:, 6:] = E
    return dict(A=A, B=B, D=D, E=E, ABD=ABD, ABDE=ABDE, h=h)


def scales(stack, plyts, props, offset=0.0):
    """Magnitude of the summands of A, B, D (for scale-aware tolerances)."""
    h = float(sum(plyts))
    qmax = max(np.abs(ply_tensors(pr, 0.0)[0]).max() for pr in props)
    zmax = h / 2 + abs(offset)
    return qmax * h, qmax * h * zmax, qmax * h * zmax ** 2
