"""C15 - Ritz eigenvalues are upper bounds converging (monotonically) down to the closed-form values.

Full product over (m, n) in {4..M}^2 (M=10 quick, 16 thorough) for every (laminate, aspect ratio, load/frequency letter,
restraint pattern).  On every lattice edge (m,n)->(m+1,n) and (m,n)->(m,n+1) none of the lowest five eigenvalues may rise
(hierarchical trial spaces); for simply supported specially orthotropic plates the k-th value is >= the k-th closed-form
double-sine value and the gap at (M,M) is small.
"""
import itertools

import numpy as np
from scipy.linalg import eigh

from .. import pan
from ..core import fail
from ..ref import laminate as rl

RULE = ('one case = one (laminate, aspect ratio, load ratio or frequency, restraint pattern); inside it every (m,n) of the square range is '
        'solved and every lattice edge compared; non-trivial = all')
ASSUMPTIONS = ['dense symmetric-definite solver (scipy eigh) on the package matrices restricted to active amplitudes; eigen-solver noise floor max(1e-7, 200 eps (side/thickness)^2) relative',
               'monotonicity tolerance 1e-7 relative (dense eigen-solver noise floor ~2e-9); closed forms: double-sine series for SSSS specially orthotropic plates (with rotary inertia)']
LAMS = {'uni0': [0.], 'uni90': [90.], 'cross_sym': [0., 90., 90., 0.], 'iso': None,
        # plies of unequal thickness (symmetric about the mid-surface, so B = 0 and D16 = D26 = 0 still hold)
        'cross_uneq': [0., 90., 0.], 'cross_uneq2': [90., 0., 0., 90.],
        # two materials on plies of the same angle (symmetric: still specially orthotropic)
        'hybrid': [0., 0., 90., 90., 0., 0.],
        # very thin single plies: D is eight to ten orders of magnitude below A in SI units
        'uni0_thin': [0.], 'uni90_thin': [90.]}
MGLASS = (38.6e9, 8.27e9, 0.26, 4.14e9, 4.14e9, 3.0e9)
HYBRID_MATS = lambda: [MGLASS, pan.M6, pan.M6, pan.M6, pan.M6, MGLASS]
PLYTS = {'cross_uneq': [0.3e-3, 0.8e-3, 0.3e-3], 'cross_uneq2': [0.2e-3, 0.5e-3, 0.5e-3, 0.2e-3], 'uni0_thin': [0.125e-3], 'uni90_thin': [0.125e-3]}
TOP = [(4, 4), (16, 4), (4, 16), (15, 15), (16, 15), (15, 16), (16, 16)]
ASPECTS = [0.2, 0.5, 1.0, 1.7, 5.0]
NEIG = 5
PKG_MISMATCH = []


def cases(tier, seed):
    out = []
    M = 10 if tier == 'quick' else 16
    for lam, asp, what in itertools.product(LAMS, ASPECTS, ['lb0', 'lb0.5', 'lb1', 'freq']):
        if tier == 'quick' and asp in (0.2, 5.0) and lam not in ('cross_sym',):
            continue
        out.append(dict(lam=lam, aspect=asp, what=what, fbase='SSSS', M=M, seed=seed))
    if tier == 'quick':
        # top of the quantified range of series orders, on the sub-lattice TOP (all componentwise-ordered pairs compared)
        for lam, asp, what in itertools.product(LAMS, [0.2, 1.0, 5.0], ['lb0', 'lb0.5', 'lb1', 'freq']):
            if asp == 1.0 and lam not in ('cross_sym', 'cross_uneq'):
                continue
            out.append(dict(lam=lam, aspect=asp, what=what, fbase='SSSS', M=16, top=1, seed=seed))
    for fb, lam, what in itertools.product(['CCCC', 'CFSF'], ['cross_sym', 'general'], ['lb0.5', 'freq']):
        out.append(dict(lam=lam, aspect=1.7, what=what, fbase=fb, M=M if tier == 'thorough' else 9, seed=seed))
    return out


def flags_for(fb):
    fl = pan.rp.default_flags()
    if fb == 'CCCC':
        for k in fl:
            fl[k] = 0.0
    elif fb == 'CFSF':      # x=0 clamped, x=a simply supported, both y edges free
        for k in fl:
            fl[k] = 0.0
        for d in 'uvw':
            for e in '12':
                fl['%s%sty' % (d, e)] = 1.0
                fl['%s%sry' % (d, e)] = 1.0
        fl['w2rx'] = 1.0
    return fl


def build(case, m, n, panel=None):
    from compmech.panel import Panel
    if panel is not None:              # the same object taken through the sequence of series orders
        panel.m, panel.n = m, n
        return (panel,) + panel._verif_geo
    b = 0.5
    a = b * case['aspect']
    if case['lam'] == 'iso':
        stack, mat, plyt = [0.], pan.MISO, 1.0e-3
    elif case['lam'] == 'general':
        stack, mat, plyt = [30., -60., 17.3], pan.M6, 0.4e-3
    else:
        stack, mat, plyt = LAMS[case['lam']], pan.M6, 0.4e-3
    if case['lam'] in PLYTS:
        plyt = PLYTS[case['lam']]
        p = Panel(a=a, b=b, stack=stack, plyts=list(plyt), laminaprop=mat, m=m, n=n, mu=1600.)
    elif case['lam'] == 'hybrid':
        mat = HYBRID_MATS()
        p = Panel(a=a, b=b, stack=stack, plyt=plyt, laminaprops=[tuple(x) for x in mat], m=m, n=n, mu=1600.)
    else:
        p = Panel(a=a, b=b, stack=stack, plyt=plyt, laminaprop=mat, m=m, n=n, mu=1600.)
    for k, v in flags_for(case['fbase']).items():
        setattr(p, k, v)
    p._verif_geo = (a, b, stack, mat, plyt)
    return p, a, b, stack, mat, plyt


def closed_form(case, a, b, stack, mat, plyt, nvals):
    L = rl.abd(stack, list(plyt) if isinstance(plyt, (list, tuple)) else [plyt] * len(stack),
               list(mat) if isinstance(mat, list) else [mat] * len(stack))
    if max(abs(L['B']).max() / L['A'].max() / L['h'], abs(L['D'][0, 2]) / L['D'][0, 0], abs(L['D'][1, 2]) / L['D'][0, 0]) > 1e-12:
        raise AssertionError('harness: laminate letter is not specially orthotropic')
    D = L['D']
    h = L['h']
    vals = []
    for p in range(1, 40):
        for q in range(1, 40):
            al, be = p * np.pi / a, q * np.pi / b
            num = D[0, 0] * al ** 4 + 2 * (D[0, 1] + 2 * D[2, 2]) * al ** 2 * be ** 2 + D[1, 1] * be ** 4
            if case['what'].startswith('lb'):
                k = float(case['what'][2:])
                vals.append(num / (al ** 2 + k * be ** 2))
            else:
                mu = 1600.
                vals.append(num / (mu * h + mu * h ** 3 / 12 * (al ** 2 + be ** 2)))
    return np.sort(vals)[:nvals]


def solve(case, m, n, panel=None):
    p, a, b, stack, mat, plyt = build(case, m, n, panel)
    if panel is None:
        solve.last_panel = p
    K = pan.dense(p.calc_k0(silent=True))
    if case['what'].startswith('lb'):
        k = float(case['what'][2:])
        p.Nxx, p.Nyy = -1.0, -k
        G = -pan.dense(p.calc_kG0(silent=True))          # positive semi-definite for compression
        act = np.abs(K).sum(axis=0) != 0
        Ka, Ga = K[np.ix_(act, act)], G[np.ix_(act, act)]
        # (K - lambda G) v = 0  ->  G v = (1/lambda) K v
        mu = eigh(Ga, Ka, eigvals_only=True)
        lam = 1.0 / mu[mu > 1e-14 * mu.max()]
        out = np.sort(lam)[:NEIG]
        if case['fbase'] == 'SSSS' and case.get('pkg', True):
            # the same values through the package's own solver (dense path: deterministic)
            from compmech.analysis import lb
            from scipy.sparse import csr_matrix
            vals = np.real(np.asarray(lb(csr_matrix(K), csr_matrix(-G), silent=True, sparse_solver=False, num_eigvalues=NEIG)[0]))
            vals = np.sort(vals[np.isfinite(vals) & (vals > 0)])[:NEIG]
            k = min(len(vals), len(out))
            if k < min(NEIG, len(out)) or np.abs(vals[:k] - out[:k]).max() > 1e-7 * np.abs(out[:k]).max():
                PKG_MISMATCH.append(dict(what='lb', orders=[m, n], package=vals[:k], direct=out[:k]))
        return out, (a, b, stack, mat, plyt)
    M = pan.dense(p.calc_kM(silent=True))
    act = np.abs(M).sum(axis=0) != 0
    w2 = eigh(K[np.ix_(act, act)], M[np.ix_(act, act)], eigvals_only=True)
    out = np.sort(w2)[:NEIG]
    if case['fbase'] == 'SSSS' and case.get('pkg', True):
        from compmech.analysis import freq
        from scipy.sparse import csr_matrix
        vals = np.real(np.asarray(freq(csr_matrix(K), csr_matrix(M), silent=True, sparse_solver=False, num_eigvalues=NEIG)[0])) ** 2
        vals = np.sort(vals)[:NEIG]
        k = min(len(vals), len(out))
        if k < min(NEIG, len(out)) or np.abs(vals[:k] - out[:k]).max() > 1e-7 * np.abs(out[:k]).max():
            PKG_MISMATCH.append(dict(what='freq', orders=[m, n], package=vals[:k], direct=out[:k]))
    return out, (a, b, stack, mat, plyt)


def check_case(case):
    M = case['M']
    fails = []
    del PKG_MISMATCH[:]
    vals = {}
    geo = None
    lo = 6 if case['fbase'] == 'CCCC' else 4        # clamped edges need index >= 4 functions to have any active amplitude
    if case.get('top'):
        for m, n in TOP:
            vals[(m, n)], geo = solve(case, m, n)
    else:
        for m in range(lo, M + 1):
            for n in range(lo, M + 1):
                vals[(m, n)], geo = solve(case, m, n)
    execs = len(vals)
    # eigen-solver noise floor of the lowest (bending) eigenvalues: the in-plane amplitudes are stiffer by (side / thickness)^2
    a_, b_, stack_, mat_, plyt_ = geo
    h_ = sum(plyt_) if isinstance(plyt_, (list, tuple)) else plyt_ * len(stack_)
    noise = max(1e-7, 200 * 2.220446049250313e-16 * (max(a_, b_) / h_) ** 2)
    # the same Panel object taken through a sequence of series orders ("add one term in either direction") must reproduce the values of
    # freshly defined panels
    path = [q for q in ((lo + 1, lo), (lo, lo + 1), (lo + 2, lo), (lo, lo + 2), (lo + 1, lo + 1)) if q in vals]
    if path and not case.get('top'):
        solve(case, lo, lo)
        shared = solve.last_panel
        for (m, n) in path:
            v2, _ = solve(case, m, n, panel=shared)
            execs += 1
            k = min(len(v2), len(vals[(m, n)]))
            if np.abs(v2[:k] - vals[(m, n)][:k]).max() > 1e-9 * np.abs(vals[(m, n)][:k]).max():
                fails.append(fail('eigenvalues of a Panel object re-used for another series order differ from those of a freshly defined panel',
                                  sig=None, case=case, orders=[m, n], reused=v2[:k], fresh=vals[(m, n)][:k]))
                break
    edges = 0
    worst = 0.0
    for (m, n), v in vals.items():
        nbs = ((m + 1, n), (m, n + 1)) if not case.get('top') else [q for q in vals if q != (m, n) and q[0] >= m and q[1] >= n]
        for nb in nbs:
            if nb in vals:
                edges += 1
                w = vals[nb]
                k = min(len(v), len(w))
                rise = (w[:k] - v[:k]) / np.abs(v[:k])
                worst = max(worst, float(rise.max()))
                if rise.max() > noise:
                    fails.append(fail('adding series terms raised one of the lowest eigenvalues', sig=None, case=case, frm=[m, n], to=list(nb),
                                      before=v[:k], after=w[:k]))
                    break
        if len(fails) > 3:
            break
    gap = None
    if case['fbase'] == 'SSSS' and case['lam'] != 'general':
        ex = closed_form(case, *geo, NEIG)
        for (m, n), v in vals.items():
            k = min(len(v), len(ex))
            if np.any(v[:k] < ex[:k] * (1 - noise)):      # dense eigen-solver noise floor at order 16 is ~1e-8 for ordinary plies
                fails.append(fail('a Ritz eigenvalue lies below the closed-form double-sine value', sig=None, case=case, orders=[m, n],
                                  ritz=v[:k], closed_form=ex[:k]))
                break
        vM = vals[(M, M)]
        gap = float((vM[0] - ex[0]) / ex[0])
        # the lowest mode has at most ~2 half waves along each direction except for extreme aspect ratios
        limit = (1e-3 if M < 16 else 1e-6) if case['aspect'] in (0.5, 1.0, 1.7) else 2e-2
        if gap > limit:
            fails.append(fail('lowest eigenvalue at the largest series order has not converged to the closed form', sig=None, case=case,
                              gap=gap, limit=limit, ritz=float(vM[0]), closed_form=float(ex[0])))
    if PKG_MISMATCH:
        fails.append(fail('lowest eigenvalues returned by the package solver (compmech.analysis.%s, dense path) differ from those of its matrices' % PKG_MISMATCH[0]['what'],
                          sig=None, case=case, n_orders=len(PKG_MISMATCH), **{k: v for k, v in PKG_MISMATCH[0].items() if k != 'what'}))
    return dict(fails=fails[:4], execs=execs, states=execs, transitions=edges, nontrivial=1, gap=gap, worst_rise=worst)


def summarize(results, tier, seed):
    gaps = [r['gap'] for r in results if r.get('gap') is not None]
    return dict(max_gap_to_closed_form=max(gaps) if gaps else None, max_relative_rise_on_an_edge=max(r.get('worst_rise', 0) for r in results),
                series_orders='4..%d squared' % (10 if tier == 'quick' else 16))
