"""C06 - frequency solver returns true eigenpairs of (K, M), ascending, on both paths.

Full product of constructed pairs with a common eigenbasis (exact omega_i = sqrt(d_i/m_i)):
  size x spectrum letter x mass letter x basis x null pattern x requested number x solver switch x sort x reduced_dof
plus the package's own (k0, kM) of panels, an assembly and a stiffened bay through compmech.analysis.freq and Panel.freq.
"""
import itertools

import numpy as np
from scipy.sparse import csr_matrix

from .. import pan
from ..core import fail, seed_eps

RULE = ('one case = one element of the product (size, spectrum, mass letter, basis, null pattern, requested number, solver, sort, reduced dof) '
        'or one structure; non-trivial = pair with at least two distinct frequencies')
ASSUMPTIONS = ['ARPACK start vector is random: eigenpairs are judged through residuals and the exactly known frequencies',
               'more eigenvalues may be requested than the problem has: whatever comes back must be true pairs']
SIG_SORT = 'C06:sort-on-values-rounded-to-0.1'


def make_pair(n, spec, massl, basis, nullpat, seed):
    e = lambda k: seed_eps(seed, 2500 + k, 0.05)
    if spec == 'separated':
        om = 5.0 + 3.0 * np.arange(n) * (1 + 0.02 * np.arange(n))
    elif spec == 'close':                       # closer than 0.05 rad/s: exposes sorting on rounded values
        om = 5.0 + 3.0 * np.arange(n)
        om[1] = om[0] + 0.004
        om[2] = om[0] + 0.008
        om[3:] += 1.0
    elif spec == 'repeated':
        om = 5.0 + 3.0 * np.arange(n)
        om[1] = om[0]
    else:
        om = 10.0 ** np.linspace(0, 3, n)
    om = om * (1 + e(1))
    mm = 1.0 + 0.5 * np.cos(np.arange(n))
    if massl == 'scaled':
        mm = mm * 7.3
    if massl == 'tiny':            # small mass scale (e.g. tonne-mm units): column sums of M below 1e-8
        mm = mm * 1.0e-11
    d = om ** 2 * mm
    if basis == 'diag':
        Q = np.eye(n)
    elif basis == 'rotations':
        Q = np.eye(n)
        for k in range(0, n - 1, 2):
            t = 0.3 + 0.2 * k
            Q[k:k + 2, k:k + 2] = [[np.cos(t), -np.sin(t)], [np.sin(t), np.cos(t)]]
    else:
        A = np.array([[np.sin(1.0 + 3.1 * i + 1.7 * j + e(2)) for j in range(n)] for i in range(n)])
        Q = np.linalg.qr(A)[0]
    K = Q.dot(np.diag(d)).dot(Q.T)
    M = Q.dot(np.diag(mm)).dot(Q.T)
    K, M = 0.5 * (K + K.T), 0.5 * (M + M.T)
    if nullpat == 'none':
        idx = np.arange(n); N = n
    elif nullpat == 'first3':
        idx = np.arange(n) + 3; N = n + 3
    elif nullpat == 'last3':
        idx = np.arange(n); N = n + 3
    elif nullpat == 'scattered':                 # null amplitudes that do not come in complete (u, v, w) triples
        idx = np.array([i for i in range(2 * n + 5) if i % 5 != 1][:n]); N = int(idx[-1]) + 1
        N += (-N) % 3
    else:                                        # every fourth triple null
        idx = np.array([i + 3 * (i // 9) for i in range(n)]); N = int(idx[-1]) + 1
        N += (-N) % 3
    Kb = np.zeros((N, N)); Mb = np.zeros((N, N))
    Kb[np.ix_(idx, idx)] = K
    Mb[np.ix_(idx, idx)] = M
    return Kb, Mb, idx, om


def cases(tier, seed):
    out = []
    sizes = [6, 9, 12, 30, 60] + ([120, 399] if tier == 'thorough' else [])
    for n, spec, massl, basis, nullpat, num, sparse, sort in itertools.product(
            sizes, ['separated', 'close', 'repeated', 'decades'], ['spd', 'scaled', 'tiny'], ['diag', 'rotations', 'generic'],
            ['none', 'first3', 'last3', 'fourth', 'scattered'], [1, 3, 5, 25], [1, 0], [1, 0]):
        if tier == 'quick':
            if massl in ('scaled', 'tiny') and (basis != 'generic' or nullpat not in ('none', 'fourth', 'scattered')):
                continue
            if basis == 'rotations' and nullpat != 'none':
                continue
            if n in (9, 60) and (spec not in ('separated', 'close') or nullpat not in ('none', 'fourth', 'scattered')):
                continue
        out.append(dict(kind='pair', n=n, spec=spec, mass=massl, basis=basis, null=nullpat, num=num, sparse=sparse, sort=sort, seed=seed))
        if n == 12 and spec == 'separated' and massl == 'spd' and basis == 'generic' and nullpat in ('none', 'fourth'):
            # the default silent=False (messages go to the log): results must be the same quantities
            out.append(dict(kind='pair', n=n, spec=spec, mass=massl, basis=basis, null=nullpat, num=num, sparse=sparse, sort=sort, loud=1, seed=seed))
    for struct, sparse, num, mscale in itertools.product(['plate', 'cpanel', 'plate_reduced', 'assembly', 'bay'], [1, 0], [2, 5], [1.0, 1.0e-9]):
        out.append(dict(kind='struct', struct=struct, sparse=sparse, num=num, mscale=mscale, seed=seed))
    # Panel.freq (second implementation): full product of its own switches
    for model, geom, atype, sort, red, sparse, num in itertools.product(['plate', 'cpanel'], ['regular', 'near_square', 'square'], [4, 3], [1, 0], [0, 1],
                                                                          [1, 0], [2, 6]):
        if red and sparse:
            continue                      # documented: only effective with the dense solver
        out.append(dict(kind='pfreq', model=model, geom=geom, atype=atype, sort=sort, reduced=red, sparse=sparse, num=num, seed=seed))
        if geom == 'regular' and sort and not red:
            # the same Panel object analysed first under another definition (density / edge restraints / thickness)
            for redef in ('mu', 'flags', 'plyt'):
                out.append(dict(kind='pfreq', model=model, geom=geom, atype=atype, sort=sort, reduced=red, sparse=sparse, num=num, redef=redef, seed=seed))
    return out


def retry_arpack(f, *a, **kw):
    """ARPACK's start vector is not reachable through the package's functions: a break-down of the iteration is retried (C05 does the same)"""
    from scipy.sparse.linalg import ArpackError
    last = None
    for attempt in range(3):
        try:
            return f(*a, **kw)
        except ArpackError as e:
            last = e
    raise last


def judge(K, M, vals, vecs, idx_active, fails, ctx, exact=None, sort=True, num=None, close=False):
    vals = np.asarray(vals)
    vecs = np.asarray(vecs)
    if np.iscomplexobj(vals):
        if np.abs(vals.imag).max() > 1e-7 * np.abs(vals).max():
            fails.append(fail('complex frequencies for a symmetric positive-definite pair', sig=None, **ctx))
        vals = vals.real
    if np.any(~(vals > 0)):
        fails.append(fail('non-positive (or NaN) circular frequency returned', sig=None, vals=vals[:6], **ctx))
    k = min(len(vals), vecs.shape[1], num or len(vals))
    null = np.ones(K.shape[0], dtype=bool)
    null[idx_active] = False
    nK = np.abs(K).max()
    for i in range(k):
        v = vecs[:, i]
        v = v.real if np.iscomplexobj(v) and np.abs(v.imag).max() <= 1e-7 * np.abs(v).max() else v
        nv = np.linalg.norm(v)
        if nv == 0:
            fails.append(fail('a returned mode is identically zero', sig=None, index=i, **ctx))
            break
        r = K.dot(v) - vals[i] ** 2 * M.dot(v)
        if np.linalg.norm(r) > 1e-6 * (nK + vals[i] ** 2 * np.abs(M).max()) * nv:
            fails.append(fail('returned pair does not satisfy K v = omega^2 M v', sig=None, index=i, omega=float(vals[i]),
                              residual=float(np.linalg.norm(r) / ((nK + vals[i] ** 2 * np.abs(M).max()) * nv)), **ctx))
            break
        if np.any(v[null] != 0):
            fails.append(fail('mode is not zero on massless / stiffnessless amplitudes', sig=None, index=i, **ctx))
            break
    if sort and len(vals) > 1:
        kk = min(len(vals), num or len(vals))
        dv = np.diff(vals[:kk])
        if np.any(dv < -1e-9 * np.abs(vals[:kk]).max()):
            sig = SIG_SORT if np.all(np.abs(dv[dv < 0]) < 0.1) else None
            fails.append(fail('frequencies not in ascending order' + (' (neighbours closer than 0.1 rad/s: explained by sorting on values rounded to 0.1)' if sig else ''),
                              sig=sig, vals=vals[:kk], **ctx))
    if not sort and exact is not None and len(vals):
        # unsorted output: whatever the order, the lowest requested frequencies must be among the returned values
        ex = np.sort(exact)
        kk = min(len(ex), num or len(ex), len(vals))
        missing = [float(e) for e in ex[:kk] if np.abs(vals - e).min() > 1e-6 * ex[:kk].max()]
        if missing:
            fails.append(fail('the lowest frequencies are not among the returned (unsorted) values', sig=None, missing=missing[:5], got=np.sort(vals)[:8], **ctx))
    if sort and exact is not None and len(vals):
        ex = np.sort(exact)
        kk = min(len(vals), len(ex), num or len(vals))
        if np.abs(np.sort(vals[:kk]) - ex[:kk]).max() > 1e-6 * ex[:kk].max():
            fails.append(fail('returned frequencies are not the lowest ones', sig=None, got=np.sort(vals[:kk]), expected=ex[:kk], **ctx))


def check_pair(case):
    from compmech.analysis import freq
    Kd, Md, idx, om = make_pair(case['n'], case['spec'], case['mass'], case['basis'], case['null'], case['seed'])
    K, M = csr_matrix(Kd), csr_matrix(Md)
    Kc, Mc = K.copy(), M.copy()
    fails = []
    ctx = dict(case=case)
    try:
        vals, vecs = retry_arpack(freq, K, M, silent=not case.get('loud'), sparse_solver=bool(case['sparse']), sort=bool(case['sort']), num_eigvalues=case['num'])
    except Exception as e:
        return dict(fails=[fail('freq raised', sig=None, case=case, error=repr(e)[:300])], nontrivial=1)
    if abs(K - Kc).max() != 0 or abs(M - Mc).max() != 0:
        fails.append(fail('freq modified the matrices passed by the caller', sig=None, case=case))
    judge(Kd, Md, vals, vecs, idx, fails, ctx, exact=om, sort=bool(case['sort']), num=case['num'])
    execs = 1
    if not fails and case['sort']:
        s = 3.7
        vals2, _ = freq(K, csr_matrix(s * Md), silent=True, sparse_solver=bool(case['sparse']), sort=True, num_eigvalues=case['num'])
        execs += 1
        kk = min(len(vals), len(vals2), case['num'])
        if np.abs(np.sort(np.real(vals2[:kk])) * np.sqrt(s) - np.sort(np.real(vals[:kk]))).max() > 1e-6 * np.abs(vals[:kk]).max():
            fails.append(fail('scaling the mass by s does not scale the frequencies by 1/sqrt(s)', sig=None, case=case))
    # reduced_dof (dense path only, sizes multiple of 3): v,w block eigenpairs
    if not fails and not case['sparse'] and case['sort'] and Kd.shape[0] % 3 == 0:
        try:
            vr, vecr = freq(K, M, silent=True, sparse_solver=False, sort=True, reduced_dof=True, num_eigvalues=case['num'])
            execs += 1
            take = np.array([i for i in idx if i % 3 != 0])          # v and w amplitudes that carry mass
            from scipy.linalg import eigh
            wr = np.sqrt(np.abs(eigh(Kd[np.ix_(take, take)], Md[np.ix_(take, take)], eigvals_only=True)))
            kk = min(case['num'], len(vr), len(wr))
            if np.abs(np.sort(np.real(vr))[:kk] - wr[:kk]).max() > 1e-6 * wr[:kk].max():
                fails.append(fail('reduced_dof frequencies are not those of the (v,w) block', sig=None, case=case))
            if vecr.shape[0] != Kd.shape[0] or np.abs(vecr[0::3, :]).max() != 0:
                fails.append(fail('reduced_dof modes are not re-expanded with zeros on the dropped amplitudes', sig=None, case=case))
        except Exception as e:
            fails.append(fail('freq with reduced_dof raised', sig=None, case=case, error=repr(e)[:300]))
    return dict(fails=fails[:4], execs=execs, transitions=execs, nontrivial=1)


def check_struct(case):
    from compmech.analysis import freq
    from scipy.linalg import eigh
    seed = case['seed']
    fails = []
    st = case['struct']
    panel = None
    if st in ('plate', 'cpanel', 'plate_reduced'):
        cfg = dict(model='cpanel' if st == 'cpanel' else 'plate', a=0.6, b=0.4, r=1.5, lam='cross_sym', m=6, n=5, fbase='SSSS', seed=seed)
        panel = pan.make_panel(cfg)
        panel.num_eigvalues = case['num']
        K, M = panel.calc_k0(silent=True), panel.calc_kM(silent=True)
    elif st == 'assembly':
        from .c13 import mk_panel
        from compmech.panel.assembly import PanelAssembly
        ps = [mk_panel(t, seed) for t in 'AB']
        ps[0].u1ty = ps[0].v1ty = ps[0].w1ty = 0.0
        assy = PanelAssembly(ps, [dict(p1=ps[0], p2=ps[1], func='SSycte', ycte1=ps[0].b, ycte2=0.)])
        K, M = assy.calc_k0(silent=True), assy.calc_kM(silent=True)
    else:
        from .c13 import mk_bay
        spb = mk_bay(0, [1], ['b2d_f'], seed)
        K, M = spb.calc_k0(silent=True), spb.calc_kM(silent=True)
    if case.get('mscale', 1.0) != 1.0:        # consistent change of units: mass and stiffness scaled together keep the frequencies
        K, M = K * case['mscale'], M * case['mscale']
    Kd, Md = pan.dense(K), pan.dense(M)
    act = np.where(np.abs(Md).sum(axis=0) != 0)[0]
    ex = np.sqrt(np.abs(eigh(Kd[np.ix_(act, act)], Md[np.ix_(act, act)], eigvals_only=True)))
    ctx = dict(case=case)
    try:
        vals, vecs = retry_arpack(freq, K, M, silent=True, sparse_solver=bool(case['sparse']), num_eigvalues=case['num'],
                                  reduced_dof=(st == 'plate_reduced' and not case['sparse']))
        if st != 'plate_reduced' or case['sparse']:
            judge(Kd, Md, vals, vecs, act, fails, dict(ctx, api='analysis.freq'), exact=ex, num=case['num'])
        else:
            # reduced problem: eigenpairs of the (v, w) block of the restrained plate (null columns do not come in triples)
            actr = np.array([i for i in act if i % 3 != 0])
            Kb, Mb = np.zeros_like(Kd), np.zeros_like(Md)
            Kb[np.ix_(actr, actr)], Mb[np.ix_(actr, actr)] = Kd[np.ix_(actr, actr)], Md[np.ix_(actr, actr)]
            exr = np.sqrt(np.abs(eigh(Kd[np.ix_(actr, actr)], Md[np.ix_(actr, actr)], eigvals_only=True)))
            judge(Kb, Mb, vals, vecs, actr, fails, dict(ctx, api='analysis.freq reduced_dof'), exact=exr, num=case['num'])
        if panel is not None and st != 'plate_reduced' and case.get('mscale', 1.0) == 1.0:
            retry_arpack(panel.freq, silent=True, sparse_solver=bool(case['sparse']))
            judge(Kd, Md, panel.eigvals, panel.eigvecs, act, fails, dict(ctx, api='Panel.freq'), exact=ex, num=case['num'])
    except Exception as e:
        fails.append(fail('frequency analysis raised', sig=None, case=case, error=repr(e)[:300]))
    return dict(fails=fails[:4], execs=2, transitions=2, nontrivial=1)


def check_pfreq(case):
    """Panel.freq with its own switches: analysis type 3 adds the constant pre-load matrix (sub-critical compression keeps K positive
    definite), sort on/off, reduced_dof (dense), both solvers.  'near_square' = isotropic plate whose sides differ by 4e-5: the
    (1,2)/(2,1) frequencies differ by a few hundredths of a rad/s."""
    from scipy.linalg import eigh
    fails = []
    if case['geom'] in ('near_square', 'square'):
        # 'square': exactly repeated frequencies (the general eigen-solvers return them as conjugate pairs w +- 1e-11j)
        cfg = dict(model=case['model'], a=0.5, b=0.50002 if case['geom'] == 'near_square' else 0.5, r=1.5, lam='iso', m=6, n=6, fbase='SSSS',
                   seed=case['seed'])
    else:
        cfg = dict(model=case['model'], a=0.6, b=0.4, r=1.5, lam='cross_sym', m=6, n=5, fbase='SSSS', seed=case['seed'])
    p = pan.make_panel(cfg)
    p.num_eigvalues = case['num']
    if case.get('redef'):
        mu0 = p.mu
        if case['redef'] == 'mu':
            p.mu = 4.0 * mu0
        elif case['redef'] == 'flags':
            p.w1rx = p.w2rx = 0.0
        else:
            p.plyt = 2.0 * p.plyt
        p.freq(atype=4, silent=True, sparse_solver=bool(case['sparse']))
        p2 = pan.make_panel(cfg)
        p.mu, p.w1rx, p.w2rx, p.plyt = p2.mu, p2.w1rx, p2.w2rx, p2.plyt
    # reference matrices from a freshly defined panel (the re-used object is only asked for its frequency analysis)
    pr = pan.make_panel(cfg) if case.get('redef') else p
    Kd, Md = pan.dense(pr.calc_k0(silent=True)), pan.dense(pr.calc_kM(silent=True))
    if case['atype'] == 3:
        # 40% of the critical load of the pattern (Nxx, Nyy) = (-1, 0.25)
        pr.Nxx, pr.Nyy = -1.0, 0.25
        G = pan.dense(pr.calc_kG0(silent=True))
        a0 = np.where(np.abs(Kd).sum(axis=0) != 0)[0]
        mu = eigh(-G[np.ix_(a0, a0)], Kd[np.ix_(a0, a0)], eigvals_only=True)
        lcr = 1.0 / mu.max()
        pr.Nxx, pr.Nyy = -0.4 * lcr, 0.1 * lcr
        p.Nxx, p.Nyy = -0.4 * lcr, 0.1 * lcr
        Kd = Kd + pan.dense(pr.calc_kG0(silent=True))
    act = np.where(np.abs(Md).sum(axis=0) != 0)[0]
    if case['reduced']:
        act = np.array([i for i in act if i % 3 != 0])
    w2 = eigh(Kd[np.ix_(act, act)], Md[np.ix_(act, act)], eigvals_only=True)
    if w2.min() <= 0:
        raise AssertionError('harness: pre-load is not sub-critical')
    ex = np.sqrt(w2)
    try:
        retry_arpack(p.freq, atype=case['atype'], silent=not (case['num'] == 6 and case['geom'] == 'regular'), sparse_solver=bool(case['sparse']),
                     sort=bool(case['sort']), reduced_dof=bool(case['reduced']))
    except Exception as e:
        return dict(fails=[fail('Panel.freq raised', sig=None, case=case, error=repr(e)[:300])], nontrivial=1)
    vals, vecs = np.asarray(p.eigvals), np.asarray(p.eigvecs)
    if vecs.shape[0] != Kd.shape[0]:
        fails.append(fail('Panel.freq modes do not have one row per amplitude', sig=None, case=case, shape=list(vecs.shape)))
        return dict(fails=fails, nontrivial=1)
    if case['reduced']:
        # eigenpairs of the (v, w) block: residual judged on that block, modes zero on the dropped u amplitudes
        if np.abs(vecs[0::3, :]).max() != 0:
            fails.append(fail('reduced_dof modes are not zero on the dropped amplitudes', sig=None, case=case))
        Kb, Mb = np.zeros_like(Kd), np.zeros_like(Md)
        Kb[np.ix_(act, act)], Mb[np.ix_(act, act)] = Kd[np.ix_(act, act)], Md[np.ix_(act, act)]
        judge(Kb, Mb, vals, vecs, act, fails, dict(case=case, api='Panel.freq'), exact=ex, sort=bool(case['sort']), num=case['num'])
    else:
        judge(Kd, Md, vals, vecs, act, fails, dict(case=case, api='Panel.freq'), exact=ex, sort=bool(case['sort']), num=case['num'])
    return dict(fails=fails[:4], execs=1, transitions=1, nontrivial=1)


def check_case(case):
    return dict(pair=check_pair, struct=check_struct, pfreq=check_pfreq)[case['kind']](case)
