"""C18 - shell loads, prescribed amplitudes and partitioning are mutually consistent.

Full products: all admissible geometry input pairs x angle letters; all prescribed-amplitude subsets the API admits x
prescribed values; load letters (point forces constant/incremental, axial force, pressure constant/incremental, torque,
prescribed shortening / twist / load asymmetry) x load factor x models bc1..bc4.
Oracles: virtual work of every load against the package's own displacement report for a complete unit basis; index-encoding
matrices for the partitioning book-keeping; residual of the reduced system.
"""
import itertools

import numpy as np

from ..core import fail, seed_eps
from ..ref import shell as rs

RULE = 'one case = one geometry pair, one partition subset, or one (model, angle, prescribed subset, load letter, load factor); non-trivial = all'
ASSUMPTIONS = ['pressure work integrated with 64 Gauss points along the meridian and a uniform rule around the circumference',
               'torque/axial force are taken as uniform line loads on the top ring (x = 0, radius r2)']
SIG_LA = 'C18:prescribed-load-asymmetry-not-in-force-vector'
SIG_BC2 = 'C18:clpt_donnell_bc2-cone-static-with-singular-k0'
MODELS = ['clpt_donnell_bc1', 'clpt_donnell_bc2', 'clpt_donnell_bc3', 'clpt_donnell_bc4']


def cases(tier, seed):
    out = []
    for pair, alpha in itertools.product(['r2H', 'r2L', 'r1H', 'r1L', 'r1r2'], [0., 15., 40., -10.]):
        if pair == 'r1r2' and alpha == 0:
            continue
        out.append(dict(kind='geom', pair=pair, alpha=alpha, seed=seed))
    for model, pdC, pdT in itertools.product(MODELS + ['fsdt_donnell_bc1'], [0, 1], [0, 1]):
        out.append(dict(kind='partition', model=model, pdC=pdC, pdT=pdT, seed=seed))
    loads = ['forces', 'Fc', 'P', 'P_inc', 'T', 'uTM', 'thetaT', 'beta', 'all']
    for model, alpha, pdC, pdT, load, inc in itertools.product(MODELS, [0., 25.], [0, 1], [0, 1], loads, [1.0, 0.4]):
        if load == 'T' and pdT:
            continue
        if load == 'thetaT' and not pdT:
            continue
        if load == 'uTM' and not pdC:
            continue
        if load == 'Fc' and pdC:
            continue
        if tier == 'quick' and model not in ('clpt_donnell_bc1', 'clpt_donnell_bc2') and (alpha or inc != 1.0):
            continue
        out.append(dict(kind='load', model=model, alpha=alpha, pdC=pdC, pdT=pdT, load=load, inc=inc, seed=seed))
        # point forces whose magnitudes are changed after an earlier evaluation (positions kept), as a perturbation-load study does
        if load in ('forces', 'all') and model in ('clpt_donnell_bc1', 'clpt_donnell_bc3') and inc == 1.0:
            out.append(dict(kind='load', model=model, alpha=alpha, pdC=pdC, pdT=pdT, load=load, inc=inc, hist='forces_rescaled', seed=seed))
        # the same load case after a tangent stiffness was evaluated on the object (as every non-linear run does)
        if load in ('uTM', 'thetaT', 'all') and model in ('clpt_donnell_bc1', 'clpt_donnell_bc4') and (pdC or pdT):
            out.append(dict(kind='load', model=model, alpha=alpha, pdC=pdC, pdT=pdT, load=load, inc=inc, hist='after_kT', seed=seed))
    # isotropic short-cut models under pressure
    for model, alpha, load, inc in itertools.product(['iso_clpt_donnell_bc2', 'iso_clpt_donnell_bc3'], [0., 25.], ['P', 'P_inc', 'forces'], [1.0, 0.6]):
        out.append(dict(kind='load', model=model, alpha=alpha, pdC=0, pdT=1, load=load, inc=inc, seed=seed))
    # circumferential series long enough for the ring loads' quadrature to matter (the class default is n2 = 45)
    for model, load in itertools.product(['clpt_donnell_bc3', 'clpt_donnell_bc4'], ['T', 'Fc', 'forces']):
        out.append(dict(kind='load', model=model, alpha=0., pdC=0, pdT=0, load=load, inc=1.0, n2=38, m2=1, seed=seed))
    # single perturbation loads added as the very first call on a shell defined through its height H
    for model, alpha in itertools.product(['clpt_donnell_bc1', 'clpt_donnell_bc3'], [0., 25., -15.]):
        out.append(dict(kind='spl_first', model=model, alpha=alpha, seed=seed))
    # axial line load with higher harmonics, given at definition or edited in place after an evaluation
    for model, alpha in itertools.product(['clpt_donnell_bc2', 'clpt_donnell_bc4'], [0., 25.]):
        out.append(dict(kind='nxx_inplace', model=model, alpha=alpha, seed=seed))
    return out


def check_spl_first(case):
    fails = []

    def mk():
        return rs.shell_of(dict(model=case['model'], alphadeg=case['alpha'], m1=2, m2=2, n2=3, s=40))
    a = mk()
    a.add_SPL(12.0, pt=0.37, thetadeg=40.0)               # first call on the new object
    a.add_SPL(5.0, pt=0.8, thetadeg=-110.0, increment=True)
    fa = np.asarray(a.calc_fext(inc=0.6, silent=True), dtype=float)
    b = mk()
    L = b.H / np.cos(np.deg2rad(case['alpha']))            # meridional length of the declared geometry (r2, H, alpha)
    b.add_force(0.37 * L, 40.0, 0., 0., -12.0, increment=False)
    b.add_force(0.8 * L, -110.0, 0., 0., -5.0, increment=True)
    fb = np.asarray(b.calc_fext(inc=0.6, silent=True), dtype=float)
    sc = np.abs(fb).max() + 1e-300
    if fa.shape != fb.shape or np.abs(fa - fb).max() > 1e-12 * sc:
        fails.append(fail('perturbation loads added first on a shell defined through H are not the point forces at pt times the meridional length',
                          sig=None, case=case, rel=float(np.abs(fa - fb).max() / sc) if fa.shape == fb.shape else None))
    return dict(fails=fails, execs=2, transitions=2, nontrivial=1)


def check_nxx_inplace(case):
    fails = []

    def mk():
        return rs.shell_of(dict(model=case['model'], alphadeg=case['alpha'], m1=2, m2=2, n2=3, s=40, pdC=False, pdT=True, Fc=-3.0e3))
    a = mk()
    f0 = np.asarray(a.calc_fext(silent=True), dtype=float)
    a.Nxxtop[3] = 12.5           # in-place edit of the line load the package derived from Fc
    a.Nxxtop[4] = -7.0
    fa = np.asarray(a.calc_fext(silent=True), dtype=float)
    b = mk()
    b._rebuild()
    nx = b.Nxxtop.copy()
    nx[3], nx[4] = 12.5, -7.0
    c = mk()
    c.Nxxtop = nx                 # the same line load given at definition
    fc = np.asarray(c.calc_fext(silent=True), dtype=float)
    sc = np.abs(fc).max() + 1e-300
    if np.abs(fa - fc).max() > 1e-12 * sc:
        fails.append(fail('force vector after an in-place edit of the axial line load differs from that of a shell defined with this line load',
                          sig=None, case=case, rel=float(np.abs(fa - fc).max() / sc)))
    if np.abs(fa - f0).max() == 0:
        fails.append(fail('harmonics of the axial line load do not enter the force vector (vacuous case)', sig=None, case=case))
    return dict(fails=fails, execs=3, transitions=3, nontrivial=1)


def check_geom(case):
    from compmech.conecyl import ConeCyl
    a = np.deg2rad(case['alpha'])
    L0, r2_0 = 0.5, 0.3
    H0, r1_0 = L0 * np.cos(a), r2_0 + L0 * np.sin(a)
    cc = ConeCyl()
    cc.alphadeg = case['alpha']
    cc.stack, cc.plyt, cc.laminaprop = [0.], 1e-3, (71e9, 71e9, 0.33)
    cc.m1 = cc.m2 = cc.n2 = 1
    vals = dict(r1=r1_0, r2=r2_0, H=H0, L=L0)
    for k in dict(r2H=('r2', 'H'), r2L=('r2', 'L'), r1H=('r1', 'H'), r1L=('r1', 'L'), r1r2=('r1', 'r2'))[case['pair']]:
        setattr(cc, k, vals[k])
    fails = []
    try:
        cc._rebuild()
    except Exception as e:
        return dict(fails=[fail('geometry given by an admissible pair of inputs raises', sig=None, case=case, error=repr(e)[:200])], nontrivial=1)
    for k, v in vals.items():
        got = getattr(cc, k)
        if got is None or abs(got - v) > 1e-12 * abs(v):
            fails.append(fail('derived geometry is not mutually consistent', sig=None, case=case, quantity=k, got=got, expected=v))
    if abs(cc.alpharad - a) > 1e-15 or abs(cc.sina - np.sin(a)) > 1e-15 or abs(cc.cosa - np.cos(a)) > 1e-15:
        fails.append(fail('derived trigonometric data inconsistent with the semi-vertex angle', sig=None, case=case))
    if bool(cc.is_cylinder) != (case['alpha'] == 0):
        fails.append(fail('is_cylinder flag inconsistent with the semi-vertex angle', sig=None, case=case))
    return dict(fails=fails, execs=1, nontrivial=1)


def check_partition(case):
    from scipy.sparse import coo_matrix
    cc = rs.shell_of(dict(model=case['model'], m1=2, m2=1, n2=2, pdC=bool(case['pdC']), pdT=bool(case['pdT']), uTM=1.7e-4, thetaTdeg=0.3,
                          betadeg=0.2))
    cc._rebuild()
    fails = []
    size = cc.get_size()
    excl = ([0] if case['pdC'] else []) + ([1] if case['pdT'] else []) + [2]
    if sorted(cc.excluded_dofs) != excl:
        fails.append(fail('set of prescribed amplitudes differs from the one requested', sig=None, case=case, got=list(cc.excluded_dofs), expected=excl))
    K = np.arange(size)[:, None] * 1000.0 + np.arange(size)[None, :] + 1.0
    for fmt in ('dense', 'coo'):
        out = cc.exclude_dofs_matrix(K.copy() if fmt == 'dense' else coo_matrix(K), return_kkk=True, return_kku=True, return_kuk=True)
        keep = [i for i in range(size) if i not in excl]
        kuu = out['kuu'].toarray()
        if kuu.shape != (len(keep), len(keep)) or np.abs(kuu - K[np.ix_(keep, keep)]).max() != 0:
            fails.append(fail('exclude_dofs_matrix: kuu is not the matrix with prescribed rows/columns removed', sig=None, case=case, fmt=fmt))
        kuk = np.asarray(out['kuk'])
        if kuk.shape != (len(keep), cc.num0) or np.abs(kuk - K[np.ix_(keep, range(cc.num0))]).max() != 0:
            fails.append(fail('exclude_dofs_matrix: kuk is not the unknown-rows / prescribable-columns block', sig=None, case=case, fmt=fmt))
        kku = np.asarray(out['kku'])
        if kku.shape != (cc.num0, len(keep)) or np.abs(kku - K[np.ix_(range(cc.num0), keep)]).max() != 0:
            fails.append(fail('exclude_dofs_matrix: kku is not the prescribable-rows / unknown-columns block', sig=None, case=case, fmt=fmt))
    cu = 10.0 + np.arange(size - len(excl), dtype=float)
    for inc in (1.0, 0.4):
        c = cc.calc_full_c(cu.copy(), inc=inc)
        ck = {0: cc.uTM, 1: cc.thetaTrad, 2: cc.LA}
        exp = np.zeros(size)
        exp[keep] = cu
        for d in excl:
            exp[d] = inc * ck[d]
        if c.shape != (size,) or np.abs(c - exp).max() > 1e-15:
            fails.append(fail('calc_full_c does not re-insert the prescribed values at their positions', sig=None, case=case, inc=inc, got=c[:4], expected=exp[:4]))
        # inverse book-keeping: removing the prescribed amplitudes from the full vector gives back the reduced one
        if np.abs(np.delete(c, excl) - cu).max() != 0:
            fails.append(fail('removing and re-inserting prescribed amplitudes are not inverse operations', sig=None, case=case))
        c2 = cc.calc_full_c(exp.copy() / np.where(np.isin(np.arange(size), excl), inc, 1.0), inc=inc) if inc != 0 else None
    # same-object history: prescribed values changed after an earlier evaluation must be the ones re-inserted
    cc.uTM, cc.thetaTdeg, cc.betadeg = 5.5e-4, -0.7, 0.05
    cc.calc_fext(silent=True)            # any public evaluation refreshes the derived data
    c = cc.calc_full_c(cu.copy(), inc=1.0)
    ck = {0: cc.uTM, 1: np.deg2rad(cc.thetaTdeg), 2: cc.r2 * np.tan(np.deg2rad(cc.betadeg))}
    for d in excl:
        if abs(c[d] - ck[d]) > 1e-15 + 1e-12 * abs(ck[d]):
            fails.append(fail('prescribed values changed on a re-used shell are not the ones re-inserted by calc_full_c', sig=None, case=case,
                              amplitude=d, got=float(c[d]), expected=float(ck[d])))
    return dict(fails=fails[:5], execs=8, nontrivial=1)


def build_load(case):
    cfg = dict(model=case['model'], alphadeg=case['alpha'], m1=2, m2=case.get('m2', 2), n2=case.get('n2', 2), s=40, pdC=bool(case['pdC']), pdT=bool(case['pdT']))
    load = case['load']
    forces = []
    if load in ('forces', 'all'):
        forces = [((0.13, 20.0), (1.0, -2.0, 5.0), False), ((0.31, -75.0), (0.0, 0.5, -3.0), True), ((0.0, 10.0), (2.0, 0.0, 0.0), False)]
    if load in ('Fc', 'all') and not case['pdC']:
        cfg['Fc'] = -3.0e3
    if load in ('P', 'all'):
        cfg['P'] = 1.5e4
    if load in ('P_inc', 'all'):
        cfg['P_inc'] = -0.7e4
    if load in ('T', 'all') and not case['pdT']:
        cfg['T'] = 40.0
        cfg['T_inc'] = 15.0
    if load in ('uTM', 'all') and case['pdC']:
        cfg['uTM'] = 2.0e-4
    if load in ('thetaT', 'all') and case['pdT']:
        cfg['thetaTdeg'] = 0.05
    if load == 'beta':
        cfg['betadeg'] = 0.08
    cc = rs.shell_of(cfg)
    for (x, th), (fx, ft, fz), inc in forces:
        cc.add_force(x, th, fx, ft, fz, increment=inc)
    return cc, forces


def check_load(case):
    fails = []
    cc, forces = build_load(case)
    inc = case['inc']
    cc._rebuild()
    if case.get('hist') == 'after_kT':
        from ..core import seed_eps
        nfree = cc.calc_k0(silent=True).shape[0]
        cst = 0.4e-3 * np.array([seed_eps(case['seed'], 4100 + i) for i in range(nfree)])
        cc.calc_fint(cst.copy(), inc=0.7, silent=True)
        cc.calc_kT(cst.copy(), inc=0.7, silent=True)
    if case.get('hist') == 'forces_rescaled':
        cc.calc_fext(inc=inc, silent=True)
        fac = (-1.7, 0.4, 2.5)
        for lst in (cc.forces, cc.forces_inc):
            for f in lst:
                for q in range(3):
                    f[2 + q] = f[2 + q] * fac[q]
        forces = [(pos, tuple(v * fac[q] for q, v in enumerate(comp)), incr) for pos, comp, incr in forces]
    fext = np.asarray(cc.calc_fext(inc=inc, silent=True), dtype=float)
    size = cc.get_size()
    excl = list(cc.excluded_dofs)
    keep = [i for i in range(size) if i not in excl]
    if fext.shape != (len(keep),):
        return dict(fails=[fail('force vector does not have the size of the reduced system', sig=None, case=case)], nontrivial=1)
    from compmech.conecyl import modelDB
    fuvw = modelDB.db[cc.model[4:] if cc.model.startswith('iso_') else cc.model]['commons'].fuvw

    def uvw_unit(col, xs, ts):
        e = np.zeros(size); e[col] = 1.0
        out = fuvw(e, cc.m1, cc.m2, cc.n2, cc.alpharad, cc.r2, cc.L, cc.tLArad, np.ascontiguousarray(xs, dtype=float), np.ascontiguousarray(ts, dtype=float), 1)
        return [np.asarray(o) for o in out[:3]]
    # quadrature for pressure and ring loads
    gx, wx = np.polynomial.legendre.leggauss(64)
    xq, wq = 0.5 * cc.L * (gx + 1), 0.5 * cc.L * wx
    nt = 4 * cc.n2 + 8
    tq = -np.pi + 2 * np.pi * np.arange(nt) / nt
    XS, TS = np.meshgrid(xq, tq, indexing='ij')
    Wp = (np.outer(wq, np.full(nt, 2 * np.pi / nt)) * (cc.r2 + XS * cc.sina)).ravel()
    P = cc.P + inc * cc.P_inc
    T = (cc.T + inc * cc.T_inc) if not cc.pdT else 0.0
    Nxx0 = inc * cc.Nxxtop[0] if not cc.pdC else 0.0
    work = np.zeros(size)
    scale = np.zeros(size)
    for col in range(size):
        wk = sc = 0.0
        for (x, thdeg), (fx, ft, fz), incr in forces:
            u, v, w = uvw_unit(col, [x], [np.deg2rad(thdeg)])
            fac = inc if incr else 1.0
            wk += fac * (fx * u[0] + ft * v[0] + fz * w[0])
            sc += abs(fac) * (abs(fx * u[0]) + abs(ft * v[0]) + abs(fz * w[0]))
        if P:
            u, v, w = uvw_unit(col, XS.ravel(), TS.ravel())
            wk += P * np.sum(Wp * w)
            sc += abs(P) * np.sum(Wp * np.abs(w))
        if T or Nxx0:
            u, v, w = uvw_unit(col, np.zeros(nt), tq)
            ring = cc.r2 * 2 * np.pi / nt
            if T:
                wk += T / (2 * np.pi * cc.r2 ** 2) * np.sum(v) * ring
                sc += abs(T) / (2 * np.pi * cc.r2 ** 2) * np.sum(np.abs(v)) * ring
            if Nxx0:
                wk += Nxx0 * np.sum(u) * ring
                sc += abs(Nxx0) * np.sum(np.abs(u)) * ring
        work[col], scale[col] = wk, sc
    # prescribed displacement terms on the right-hand side
    cc.calc_k0(silent=True)
    K0 = cc.k0.toarray()
    ck = np.zeros(size)
    vals = {0: inc * cc.uTM, 1: inc * cc.thetaTrad, 2: inc * cc.LA}
    for d in excl:
        ck[d] = vals[d]
    rhs = work[keep] - K0[np.ix_(keep, range(size))].dot(ck)
    sc_rhs = scale[keep] + np.abs(K0[np.ix_(keep, range(size))]).dot(np.abs(ck))
    bad = np.abs(fext - rhs) > 1e-9 * sc_rhs + 1e-300
    execs = size + 2
    if np.any(bad):
        sig = None
        # explained-by: everything but the term of the prescribed load-asymmetry amplitude is present
        ck2 = ck.copy(); ck2[2] = 0.0
        rhs2 = work[keep] - K0[np.ix_(keep, range(size))].dot(ck2)
        if cc.LA != 0 and not np.any(np.abs(fext - rhs2) > 1e-9 * sc_rhs + 1e-300):
            sig = SIG_LA
        k = int(np.argmax(np.abs(fext - rhs) / (1e-9 * sc_rhs + 1e-300)))
        fails.append(fail('external force vector is not the virtual work of the loads (with the prescribed-displacement terms on the right-hand side)' +
                          (' (explained by the missing term of the prescribed load-asymmetry amplitude)' if sig else ''), sig=sig, case=case,
                          reduced_index=k, got=float(fext[k]), expected=float(rhs[k])))
    # the linear static solution satisfies the reduced system exactly
    if inc == 1.0 and not fails:
        cc2, _ = build_load(case)
        cc2.static(silent=True)
        cu = np.asarray(cc2.cs[0], dtype=float)
        f1 = np.asarray(cc2.calc_fext(inc=1.0, silent=True), dtype=float)
        kuu = cc2.k0uu.toarray()
        res = kuu.dot(cu) - f1
        scr = np.abs(kuu).dot(np.abs(cu)).max() + np.abs(f1).max() + 1e-300
        execs += 2
        if np.abs(res).max() > 1e-8 * scr:
            # explained-by (C16 known finding): the conical clpt_donnell_bc2 kernel leaves zero diagonal entries, K_uu is singular
            sig = SIG_BC2 if (case['model'] == 'clpt_donnell_bc2' and case['alpha'] != 0 and np.any(np.diag(kuu) == 0)) else None
            fails.append(fail('linear static solution does not satisfy K_uu c_u = f_u' + (' (K_uu singular: zero diagonal entries from the conical clpt_donnell_bc2 kernel)' if sig else ''),
                              sig=sig, case=case, residual=float(np.abs(res).max() / scr)))
    return dict(fails=fails[:4], execs=execs, transitions=execs, nontrivial=1)


def check_case(case):
    return dict(geom=check_geom, partition=check_partition, load=check_load, nxx_inplace=check_nxx_inplace, spl_first=check_spl_first)[case['kind']](case)
