"""C04 - mass matrix = kinetic-energy Hessian of (u - z w,x, v - z w,y, w); conserves mass; reference-surface invariance.

Configuration lattice (model incl. cone and w-only, geometry, laminate thickness, offset, 24 flags, orders, sub-interval,
placement, finalize, density).  Oracle ref.kM with the stated kinematics; rigid-translation mass; frequency invariance
under a move of the reference surface (edge between two real executions).
"""
import numpy as np
from scipy.linalg import eigh

from .. import pan
from ..core import fail
from . import c02

RULE = 'one case = one lattice configuration (<= k deviations from the base); non-trivial = any configuration other than the base'
ASSUMPTIONS = ['tolerance 1e-11 of the summand magnitude', 'frequency invariance checked on unrestrained (all flags 1) flat isotropic panels, dense solver']
RTOL = 1e-11
SIG_MASS = 'C04:mass-coupling-term-has-sign-of-u-plus-z-wx'
COORDS = {k: v for k, v in c02.COORDS.items() if k not in ('preload', 'ortho')}
COORDS['lam'] = ['iso', 'general', 'cross_sym', 'uni0']
COORDS['offset'] = ['0', '+d', '-d']
COORDS['mu'] = [1500.0, 1.0, 2.7e-9]


def cases(tier, seed):
    k = 2 if tier == 'quick' else 3
    pts = pan.lattice(COORDS, k)
    for basemod in (dict(model='kpanel', alpha=15.0), dict(offset='+d')):
        b = {q: COORDS[q][0] for q in COORDS}
        b.update(basemod)
        pts += pan.lattice(COORDS, k - 1, base=b)
    seen, out = set(), []
    for c in pts:
        key = tuple(sorted((q, str(v)) for q, v in c.items() if q != '_ndev'))
        if key not in seen:
            seen.add(key)
            out.append(dict(kind='lat', lp={q: v for q, v in c.items() if q != '_ndev' and v != COORDS[q][0]}, seed=seed))
    # reference-surface invariance of the spectrum: full product
    for (m, n) in [(4, 4), (5, 6)] + ([(7, 7)] if tier == 'thorough' else []):
        for geom in ('g1', 'g2'):
            for off in ('+d', '-d', '+2h'):
                for lam in ('iso',):
                    out.append(dict(kind='inv', m=m, n=n, geom=geom, offset=off, lam=lam, seed=seed))
    # total mass of unrestrained flat bays whose skin strips differ in thickness / density (relying on the bay defaults otherwise)
    import itertools
    for ncut, how, stiff in itertools.product([0, 1, 2, 3], ['same', 'plyt', 'plyts', 'mu', 'stack'], ['none', 'b2d_f', 't2d', 'b2d_pair', 't2d+b2d']):
        if stiff != 'none' and ncut == 0:
            continue
        if stiff in ('b2d_pair', 't2d+b2d') and (ncut < 2 or how not in ('same', 'plyt')):
            continue
        out.append(dict(kind='baymass', ncut=ncut, how=how, stiff=stiff, seed=seed))
    return out


def full_point(lp):
    c = {q: COORDS[q][0] for q in COORDS}
    c.update(lp)
    c['preload'] = 0
    return c


def check_lat(case):
    lp = full_point(case['lp'])
    cfg = c02.expand(lp, case['seed'])
    if c02.invalid_geometry(cfg):
        return dict(fails=[], execs=0, nontrivial=0)
    cfg['mu'] = lp['mu']
    fails = []
    p = pan.make_panel(cfg)
    nloc = (1 if cfg['model'] == 'plate_w' else 3) * cfg['m'] * cfg['n']
    size, r0, c0 = pan.placement(cfg, nloc)
    p.calc_k0(silent=True)       # resolves the model (fresh-object use of calc_kM is C20's business)
    K = pan.dense(p.calc_kM(size=size, row0=r0, col0=c0, silent=True, finalize=cfg['finalize']))
    ref, lam = pan.make_ref(cfg)
    h, d, mu = lam['h'], pan.OFFSETS[cfg['offset']], cfg['mu']
    Kr = pan.rp.embed(ref.kM(mu, h, d), size, r0, c0)
    S = pan.rp.embed(np.abs(ref.kM(mu, h, abs(d), +1.0)), size, r0, c0)
    S = S + pan.rp.embed(ref.scale_of([('w', 'w', mu * h * cfg['a'] * cfg['b'] / 4, 0, 0, 0, 0)]), size, r0, c0) * 0
    got, exp = (K, Kr) if cfg['finalize'] else (np.triu(K), np.triu(Kr))
    # conditioning-aware scale
    a, b = cfg['a'], cfg['b']
    I0, I1, I2 = mu * h, mu * h * abs(d), mu * (h ** 3 / 12 + h * d * d)
    jac = a * b / 4
    terms = [('w', 'w', jac * I0, 0, 0, 0, 0), ('w', 'w', jac * I2 * 4 / a ** 2, 1, 1, 0, 0), ('w', 'w', jac * I2 * 4 / b ** 2, 0, 0, 1, 1)]
    if cfg['model'] != 'plate_w':
        terms += [('u', 'u', jac * I0, 0, 0, 0, 0), ('v', 'v', jac * I0, 0, 0, 0, 0), ('u', 'w', jac * I1 * 2 / a, 0, 1, 0, 0),
                  ('w', 'u', jac * I1 * 2 / a, 1, 0, 0, 0), ('v', 'w', jac * I1 * 2 / b, 0, 0, 0, 1), ('w', 'v', jac * I1 * 2 / b, 0, 0, 1, 0)]
    S = pan.rp.embed(ref.scale_of(terms), size, r0, c0)
    tru = (lambda A: A) if cfg['finalize'] else np.triu

    def build_for(cs):
        def build(rv):
            return tru(pan.rp.embed(rv.kM(mu, h, d, cs), size, r0, c0)), tru(pan.rp.embed(rv.scale_of(terms), size, r0, c0))
        return build
    status, ratio, idx, info = pan.tiered(ref, got, exp, tru(S), RTOL, build_for(-1.0))
    table_finding = False
    if status == 'violation' and not info:
        sig = None
        Kk = pan.rp.embed(ref.kM(mu, h, d, +1.0), size, r0, c0)
        if d != 0 and pan.worst(got, Kk if cfg['finalize'] else np.triu(Kk), S, RTOL)[0] <= 1:
            sig = SIG_MASS
        fails.append(fail('calc_kM differs from the kinetic-energy Hessian of (u - z w,x, v - z w,y, w)' +
                          (' (explained by coupling terms with the sign of u + z w,x)' if sig else ''), sig=sig, cfg=cfg, index=idx,
                          got=float(got[idx]), expected=float(exp[idx])))
        if sig:          # classify the remaining deviation against the sign-adjusted reference
            status, ratio2, idx, info = pan.tiered(ref, got, tru(Kk), tru(S), RTOL, build_for(+1.0))
    if status == 'known':
        table_finding = True
        fails.append(fail('calc_kM differs from the kinetic-energy Hessian by more than 1e-9 of the natural entry scale (explained by the '
                          'sub-interval integral tables alone)', sig=pan.SIG_TABLES, cfg=cfg, index=idx, **info))
    elif status == 'violation' and info:
        fails.append(fail('calc_kM: ' + info['kind'], sig=None, cfg=cfg, index=idx, **{k: v for k, v in info.items() if k != 'kind'}))
    mask = np.zeros((size, size), dtype=bool)
    mask[r0:r0 + nloc, c0:c0 + nloc] = True
    if np.any(K[~mask] != 0):
        fails.append(fail('calc_kM wrote outside the panel block', sig=None, cfg=cfg))
    if cfg['finalize']:
        if np.abs(K - K.T).max() > 0:
            fails.append(fail('kM not symmetric', sig=None, cfg=cfg))
        act = ref.active()
        Kl = K[r0:r0 + nloc, c0:c0 + nloc][np.ix_(act, act)]
        if Kl.size:
            dd = np.sqrt(np.abs(np.diag(Kl)))
            dd[dd == 0] = 1.0
            w = np.linalg.eigvalsh(Kl / np.outer(dd, dd))
            strict = cfg['sub'] == 'none' and max(cfg['m'], cfg['n']) <= 8 and cfg['model'] != 'kpanel'
            Sl = S[r0:r0 + nloc, c0:c0 + nloc][np.ix_(act, act)]
            pd_tol = 1e-9 + np.linalg.norm(RTOL * Sl / np.outer(dd, dd))      # eigenvalue perturbation allowed by the entry-wise tolerance
            if not table_finding and (w.min() < -pd_tol or (strict and w.min() <= 1e-12)):
                fails.append(fail('kM not positive definite on the active amplitudes', sig=None, cfg=cfg, min_eig_scaled=float(w.min())))
        # rigid translation of an unrestrained flat panel: c^T M c = mu h area(sub-interval)
        fl = pan.flags_of(cfg)
        if cfg['model'] in ('plate', 'plate_w') and all(v == 1.0 for v in fl.values()) and cfg['m'] >= 3 and cfg['n'] >= 3:
            nd = 1 if cfg['model'] == 'plate_w' else 3
            sub = pan.SUBS[cfg['sub']]
            frac = 1.0 if sub is None else float(pan.Fr(sub[1]) - pan.Fr(sub[0]))
            area = cfg['a'] * cfg['b'] * frac
            for k in range(nd):
                cvec = np.zeros(size)
                for j in (0, 2):
                    for i in (0, 2):
                        cvec[r0 + nd * (j * cfg['m'] + i) + k] = 1.0
                q = cvec.dot(K).dot(cvec)
                if abs(q - mu * h * area) > 1e-11 * mu * h * area:
                    fails.append(fail('rigid unit translation does not carry mass mu*h*area', sig=None, cfg=cfg, dof=k, got=float(q),
                                      expected=float(mu * h * area)))
    execs = 1
    nb, q = pan.neighbour(lp, COORDS, case['lp'])
    if nb is not None and cfg['finalize']:
        cfg_nb = c02.expand(dict(nb, preload=0), case['seed'])
        cfg_nb['mu'] = nb['mu']
        p2 = pan.make_panel(cfg_nb)
        s2 = pan.placement(cfg_nb, (1 if cfg_nb['model'] == 'plate_w' else 3) * cfg_nb['m'] * cfg_nb['n'])
        p2.calc_k0(silent=True)
        p2.calc_kM(size=s2[0], row0=s2[1], col0=s2[2], silent=True)
        pan.retarget(p2, cfg)
        Kre = pan.dense(p2.calc_kM(size=size, row0=r0, col0=c0, silent=True))
        execs += 2
        if pan.worst(Kre, K, S, RTOL)[0] > 1:
            fails.append(fail('kM of a re-used Panel object whose definition was changed differs from that of a freshly defined panel',
                              sig=None, cfg=cfg, changed=q))
    return dict(fails=fails, execs=execs, transitions=len(case['lp']), max_ratio=ratio if not fails else 0.0, nontrivial=1 if case['lp'] else 0)


def check_baymass(case):
    """c^T kM c for a unit rigid translation of an unrestrained flat bay = sum over skin strips of mu_i h_i a (y2_i - y1_i)
    (+ mu h area of each stiffener plate for the translation along the bay axis, which moves skin and stiffeners alike when their
    own amplitudes describe the same translation)."""
    from compmech.stiffpanelbay import StiffPanelBay
    fails = []
    spb = StiffPanelBay()
    spb.a, spb.b, spb.m, spb.n = 0.8, 0.5, 4, 4
    spb.stack, spb.plyt, spb.laminaprop, spb.mu = [0., 90., 90., 0.], pan.PLYT, pan.M6, 1500.
    for d in 'uvw':
        for e in '12':
            for t in 'tr':
                for ax in 'xy':
                    setattr(spb, d + e + t + ax, 1.0)
    cuts = [0.2, 0.5, 0.8][:case['ncut']]
    ys = [0.0] + [c * spb.b for c in cuts] + [spb.b]
    expected = 0.0
    for k, (y1, y2) in enumerate(zip(ys[:-1], ys[1:])):
        kw, h, mu = {}, 4 * pan.PLYT, 1500.
        if k and case['how'] == 'plyt':
            kw = dict(plyt=pan.PLYT * (1 + 0.5 * k)); h = 4 * pan.PLYT * (1 + 0.5 * k)
        elif k and case['how'] == 'plyts':
            kw = dict(plyts=[pan.PLYT * (1 + 0.25 * k * (i + 1)) for i in range(4)]); h = sum(kw['plyts'])
        elif k and case['how'] == 'mu':
            kw = dict(mu=1500. + 700. * k); mu = kw['mu']
        elif k and case['how'] == 'stack':
            kw = dict(stack=[0., 90.] * (k + 1)); h = 2 * (k + 1) * pan.PLYT
        spb.add_panel(y1=y1, y2=y2, **kw)
        expected += mu * h * spb.a * (y2 - y1)
    nskin = 3 * spb.m * spb.n
    if case['stiff'] == 'b2d_f':
        spb.add_bladestiff2d(ys=ys[1], mu=1300., mf=3, nf=3, bf=0.03, fstack=[0., 90., 0.], fplyt=pan.PLYT, flaminaprop=pan.M6)
    elif case['stiff'] == 't2d':
        spb.add_tstiff2d(ys=ys[1], mu=1300., mf=3, nf=3, mb=3, nb=3, bf=0.03, fstack=[0., 90., 0.], fplyt=pan.PLYT, flaminaprop=pan.M6,
                         bb=0.06, bstack=[0., 90.], bplyt=pan.PLYT, blaminaprop=pan.M6)
    elif case['stiff'] in ('b2d_pair', 't2d+b2d'):
        # two stiffeners with 2D regions of different (decreasing) series orders
        fk = dict(mu=1300., bf=0.03, fstack=[0., 90., 0.], fplyt=pan.PLYT, flaminaprop=pan.M6)
        if case['stiff'] == 'b2d_pair':
            spb.add_bladestiff2d(ys=ys[1], mf=5, nf=4, **fk)
        else:
            spb.add_tstiff2d(ys=ys[1], mf=4, nf=4, mb=3, nb=4, bb=0.06, bstack=[0., 90.], bplyt=pan.PLYT, blaminaprop=pan.M6, **fk)
        spb.add_bladestiff2d(ys=ys[2], mf=3, nf=3, **fk)
    K0 = pan.dense(spb.calc_k0(silent=True))
    M = pan.dense(spb.calc_kM(silent=True))
    # every amplitude that carries stiffness carries mass (mass matrix positive definite on the active amplitudes)
    act = np.abs(np.diag(K0)) > 0
    if M.shape != K0.shape:
        fails.append(fail('bay kM and k0 have different sizes', sig=None, case=case))
    else:
        dm = np.diag(M)[act]
        if np.any(dm <= 0):
            fails.append(fail('bay kM has no mass on amplitudes that carry stiffness (not positive definite on the active amplitudes)', sig=None,
                              case=case, n_massless=int(np.sum(dm <= 0))))
        else:
            Ma = M[np.ix_(act, act)] / np.sqrt(np.outer(dm, dm))
            w = np.linalg.eigvalsh(Ma)
            if w.min() <= 1e-10:
                fails.append(fail('bay kM is not positive definite on the active amplitudes', sig=None, case=case, min_eig_scaled=float(w.min())))
    Ms = M[:nskin, :nskin]
    for k in range(3):
        cvec = np.zeros(nskin)
        for j in (0, 2):
            for i in (0, 2):
                cvec[3 * (j * spb.m + i) + k] = 1.0
        q = cvec.dot(Ms).dot(cvec)
        if abs(q - expected) > 1e-11 * expected:
            fails.append(fail('rigid unit translation of the bay skin does not carry the mass of the skin strips (sum of mu*h*area)', sig=None,
                              case=case, dof='uvw'[k], got=float(q), expected=float(expected)))
    return dict(fails=fails, execs=2, transitions=1, nontrivial=1)


def check_inv(case):
    """Edge d=0 -> d: lowest elastic frequencies of an unrestrained homogeneous panel must not move.
    A thick small panel is used so that the generalized eigenproblem is well conditioned."""
    from compmech.panel import Panel
    from ..ref import panel as rp
    fails = []
    a, b = {'g1': (0.4, 0.3), 'g2': (0.25, 0.45)}[case['geom']]
    h, mu = 2e-3, 2700.0
    fl = {k: 1.0 for k in rp.default_flags()}
    m, n = case['m'], case['n']
    spectra = {}
    for off in (0.0, {'+d': 0.5e-3, '-d': -0.5e-3, '+2h': 4e-3}[case['offset']]):
        p = Panel(a=a, b=b, stack=[0], plyt=h, laminaprop=(71e9, 71e9, 0.33), m=m, n=n, offset=off, mu=mu, **fl)
        K = pan.dense(p.calc_k0(silent=True))
        M = pan.dense(p.calc_kM(silent=True))
        spectra[off] = (np.sort(eigh(K, M, eigvals_only=True))[6:12], K, M)
    offs = list(spectra)
    w0, w1 = spectra[offs[0]][0], spectra[offs[1]][0]
    rel = np.abs(w1 - w0).max() / np.abs(w0).max()
    if rel > 1e-7:
        # explained-by: with the package's own K but the consistent mass matrix the spectrum is invariant
        _, K, M = spectra[offs[1]]
        ref = rp.PanelRef(a, b, m, n, fl)
        Mc = ref.kM(mu, h, offs[1], -1.0)
        Mk = ref.kM(mu, h, offs[1], +1.0)
        wc = np.sort(eigh(K, Mc, eigvals_only=True))[6:12]
        sig = None
        if np.abs(wc - w0).max() / np.abs(w0).max() < 1e-7 and np.abs(M - Mk).max() <= 1e-11 * np.abs(Mk).max():
            sig = SIG_MASS
        fails.append(fail('moving only the reference surface changes the natural frequencies of an unrestrained homogeneous panel' +
                          (' (explained by coupling terms with the sign of u + z w,x)' if sig else ''), sig=sig, case=case,
                          rel_change=float(rel), omega2_d0=w0, omega2_d=w1))
    return dict(fails=fails, execs=2, transitions=1, nontrivial=1)


def check_case(case):
    return dict(lat=check_lat, inv=check_inv, baymass=check_baymass)[case['kind']](case)


def summarize(results, tier, seed):
    return dict(deviation_bound_completed=2 if tier == 'quick' else 3, caps_hit=False,
                max_err_over_tol=max(r.get('max_ratio', 0) for r in results))
