"""C16 - shell linear matrices: energy consistent, symmetric PSD, cone at 0 deg = cylinder, isotropic short-cuts, kG0 linear.

Full product: every registered importable model x semi-vertex angle letters x geometry letters x laminate letters x
series-order letters x edge-restraint letters x load triples.  Oracle for classical models: Hessian of the strain energy
of the package's own linear strain field (mc/ref/shell.py) + elastic edge restraint energy; cylinders tight, cones must
converge at the 1/s^2 rate of the meridional section approximation.
"""
import itertools

import numpy as np

from ..core import fail
from ..ref import shell as rs

RULE = 'one case = one (model, angle, geometry, laminate, orders, edge restraint) element or one kernel-identity edge; non-trivial = all'
ASSUMPTIONS = ['strain operator = odd part of the package commons.fstrain for unit amplitudes (as the property prescribes)',
               'cones: only the limit s -> infinity and the 1/s^2 rate are demanded (s = 20, 40, 80)',
               'models registered but not importable in this tree (clpt_donnell_bcn) are skipped and named in the evidence']
SIG_BC2 = 'C16:clpt_donnell_bc2-cone-k0-not-energy-consistent'
SIG_NXX = 'C16:line-load-derived-from-Fc-frozen-at-first-evaluation'
ANCHORED = ['clpt_donnell_bc1', 'clpt_donnell_bc2', 'clpt_donnell_bc3', 'clpt_donnell_bc4', 'clpt_donnell_bcn', 'clpt_sanders_bc1',
            'clpt_sanders_bc2', 'clpt_sanders_bc3', 'clpt_sanders_bc4', 'iso_clpt_donnell_bc2', 'iso_clpt_donnell_bc3', 'fsdt_donnell_bc1',
            'fsdt_donnell_bc2', 'fsdt_donnell_bc3', 'fsdt_donnell_bc4', 'fsdt_donnell_bcn', 'fsdt_sanders_bcn']
# kernel-level findings (Cython, cannot be regenerated here): accepted only when the Python layer is verified against a direct kernel call
KERNEL_FINDINGS = {('clpt_donnell_bc2', 'energy-cone'): SIG_BC2, ('clpt_donnell_bc2', 'cyl-vs-cone0'): SIG_BC2,
                   ('iso_clpt_donnell_bc2', 'iso-vs-general-cone'): SIG_BC2,
                   ('clpt_sanders_bc3', 'energy-cyl'): 'C16:clpt_sanders_bc3-k0-not-energy-consistent',
                   ('clpt_sanders_bc3', 'energy-cone'): 'C16:clpt_sanders_bc3-k0-not-energy-consistent',
                   ('fsdt_donnell_bcn', 'cyl-vs-cone0'): 'C16:fsdt_donnell_bcn-cylinder-kernel-differs-from-cone-at-0',
                   ('fsdt_sanders_bcn', 'cyl-vs-cone0'): 'C16:fsdt_sanders_bcn-cylinder-kernel-differs-from-cone-at-0',
                   ('fsdt_sanders_bcn', 'kg-cyl-vs-cone0'): 'C16:fsdt_sanders_bcn-cylinder-kernel-differs-from-cone-at-0',
                   ('fsdt_sanders_bcn', 'psd'): 'C16:fsdt_sanders_bcn-k0-not-psd'}
ORDS = [(1, 1, 1), (2, 2, 2), (3, 2, 4), (6, 1, 1)]
EDGES = ['inf', 'zero', 'finite']
LAMS = {'general': [30., -60., 17.3], 'cross_sym': [0., 90., 90., 0.], 'unsym': [0., 90.]}


def models():
    from compmech.conecyl import modelDB
    out = []
    for name, d in sorted(modelDB.db.items()):
        if d.get('linear') is None or d.get('commons') is None or name not in ANCHORED:
            continue
        out.append(name)
    return out


def cases(tier, seed):
    out = []
    from compmech.conecyl import modelDB
    skipped = [k for k in ANCHORED if k not in modelDB.db or modelDB.db[k].get('linear') is None or modelDB.db[k].get('commons') is None]
    for model in models():
        classical = 'clpt' in model
        for alpha, geo, lam, ords, edge in itertools.product([0., 10., 30., 60., 0.04], ['g1', 'g2'], list(LAMS), ORDS, EDGES):
            if model.startswith('iso_') and lam != 'general':
                continue
            if alpha == 0.04 and (geo != 'g1' or lam != 'general' or ords != (2, 2, 2) or edge != 'inf'):
                continue          # a cone with a tiny but non-zero semi-vertex angle: still a cone (cone kernels, cone strain field)
            if tier == 'quick':
                if geo == 'g2' and (alpha not in (0., 30.) or ords != (2, 2, 2)):
                    continue
                if lam != 'general' and (ords != (2, 2, 2) or edge != 'inf'):
                    continue
                if edge != 'inf' and ords not in ((2, 2, 2),):
                    continue
                if ords == (3, 2, 4) and alpha not in (0., 30.):
                    continue
            out.append(dict(kind='k0', model=model, alpha=alpha, geo=geo, lam=lam, ords=list(ords), edge=edge, classical=classical, seed=seed))
            if ords == (2, 2, 2) and lam == 'general' and geo == 'g1' and edge == 'inf' and alpha in (0., 30.):
                # other sets of prescribed amplitudes: shortening only (non-contiguous set), rotation only, both, neither
                for pd in ('C', 'T', 'CT', 'neither'):
                    out.append(dict(kind='k0', model=model, alpha=alpha, geo=geo, lam=lam, ords=list(ords), edge=edge, classical=classical, pd=pd, seed=seed))
        for alpha0geo in ('g1', 'g2'):
            out.append(dict(kind='cyl', model=model, geo=alpha0geo, seed=seed))
        for alpha in (0., 30.):
            out.append(dict(kind='kg', model=model, alpha=alpha, seed=seed))
    for iso in [m for m in models() if m.startswith('iso_')]:
        for alpha in (0., 30.):
            out.append(dict(kind='iso', model=iso, alpha=alpha, seed=seed))
    for model, alpha, change in itertools.product(['clpt_donnell_bc1', 'fsdt_donnell_bc1', 'clpt_sanders_bc4'], [0., 30.],
                                                  ['laminaprop', 'laminaprops', 'stack', 'plyt', 'r2', 'alphadeg', 'edge', 'loads', 'orders']):
        out.append(dict(kind='redef', model=model, alpha=alpha, change=change, seed=seed))
    # named boundary conditions (documentation table of doc/source/theory/conecyl/bcs.rst) == explicit elastic edge restraints
    for model, alpha, bc, hist in itertools.product(['clpt_donnell_bc4', 'fsdt_donnell_bc4', 'clpt_donnell_bc1'], [0., 30.], BCNAMES,
                                                    ['fresh', 'after_other']):
        out.append(dict(kind='bcname', model=model, alpha=alpha, bc=bc, hist=hist, seed=seed))
    out.append(dict(kind='inventory', skipped=skipped, seed=seed))
    return out


# documented table: name -> which of (u, v, w, phix, phit) are restrained (infinite stiffness); all others zero
BCTABLE = {'ss1': 'uvw', 'ss2': 'vw', 'ss3': 'uw', 'ss4': 'w', 'cc1': 'uvwx', 'cc2': 'vwx', 'cc3': 'uwx', 'cc4': 'wx', 'free': ''}
BCNAMES = list(BCTABLE) + ['ss1-cc1', 'ss1-ss2', 'cc4_ss3', 'SS2', 'free-cc1']


def check_bcname(case):
    fails = []
    cfg = cfg_of(dict(model=case['model'], alpha=case['alpha'], geo='g1', ords=(2, 2, 2), lam='general'))
    a = rs.shell_of(cfg)
    if case['hist'] == 'after_other':
        a.bc = 'cc1' if case['bc'].lower() != 'cc1' else 'ss4'
        a._calc_linear_matrices(silent=True)
    a.bc = case['bc']
    a._calc_linear_matrices(silent=True)
    b = rs.shell_of(cfg)
    name = case['bc'].lower().replace('_', '-')
    bot, top = name.split('-') if '-' in name else (name, name)
    inf, zero = min(b.inf, 1.0e8), b.zero
    for sfx, nm in (('Bot', bot), ('Top', top)):
        on = BCTABLE[nm]
        for att, letter in (('ku', 'u'), ('kv', 'v'), ('kw', 'w'), ('kphix', 'x'), ('kphit', 't')):
            setattr(b, att + sfx, inf if letter in on else zero)
    b._calc_linear_matrices(silent=True)
    A, B = a.k0.toarray(), b.k0.toarray()
    if A.shape != B.shape or np.abs(A - B).max() > 1e-12 * np.abs(B).max():
        fails.append(fail('k0 with the named boundary condition differs from k0 with the documented elastic edge restraints set explicitly', sig=None,
                          case=case, rel=float(np.abs(A - B).max() / np.abs(B).max()) if A.shape == B.shape else None))
    return dict(fails=fails, execs=3, transitions=2, nontrivial=1)


def cfg_of(case, s=40):
    r2, H = (0.25, 0.4) if case.get('geo', 'g1') == 'g1' else (0.6, 0.3)
    m1, m2, n2 = case.get('ords', (2, 2, 2))
    cfg = dict(model=case['model'], alphadeg=case.get('alpha', 0.0), r2=r2, H=H, m1=m1, m2=m2, n2=n2, s=s,
               stack=LAMS[case.get('lam', 'general')])
    pd = case.get('pd')
    if pd:
        cfg.update(pdC=('C' in pd), pdT=('T' in pd))          # the load-asymmetry amplitude is always prescribed (the package refuses pdLA=False)
    e = case.get('edge', 'inf')
    if e != 'inf':
        val = 0.0 if e == 'zero' else None
        for i, k in enumerate(('kuBot', 'kvBot', 'kwBot', 'kphixBot', 'kphitBot', 'kuTop', 'kvTop', 'kwTop', 'kphixTop', 'kphitTop')):
            cfg[k] = 0.0 if e == 'zero' else (3.0e6 * (1 + i), 5.0e2 * (1 + i))[k.startswith('kphi')]
    return cfg


def direct_k0(cc):
    """The matrix the Python layer must produce: kernel called with arguments computed here + edge matrix, symmetrised."""
    from compmech.conecyl import modelDB
    from compmech.sparse import make_symmetric
    from scipy.sparse import csr_matrix
    fk0, fk0_cyl, fkG0, fkG0_cyl, k0edges = modelDB.get_linear_matrices(cc, None)
    if cc.alphadeg == 0:
        k0 = fk0_cyl(cc.r2, cc.L, cc.E11, cc.nu, cc.h, cc.m1, cc.m2, cc.n2) if 'iso_' in cc.model else fk0_cyl(cc.r2, cc.L, cc.F, cc.m1, cc.m2, cc.n2)
    else:
        k0 = fk0(cc.alpharad, cc.r2, cc.L, cc.E11, cc.nu, cc.h, cc.m1, cc.m2, cc.n2, cc.s) if 'iso_' in cc.model else \
            fk0(cc.alpharad, cc.r2, cc.L, cc.F, cc.m1, cc.m2, cc.n2, cc.s)
    if k0edges is not None:
        k0 = csr_matrix(k0) + csr_matrix(k0edges)
    return make_symmetric(k0).toarray()


def check_k0(case):
    fails = []
    ss = (40,) if case['alpha'] == 0 else (20, 40, 80)
    errs, Ks = [], []
    for s in ss:
        cc = rs.shell_of(cfg_of(case, s))
        cc.calc_k0(silent=True)
        K = cc.k0.toarray()
        size = K.shape[0]
        sc = np.abs(K).max()
        if np.abs(K - K.T).max() > 1e-12 * sc:
            fails.append(fail('k0 not symmetric', sig=None, case=case))
        free = np.arange(3, size)
        Kf = K[np.ix_(free, free)]
        d = np.sqrt(np.abs(np.diag(Kf))); d[d == 0] = 1.0
        w = np.linalg.eigvalsh(Kf / np.outer(d, d))
        Kd = direct_k0(cc)
        layer_ok = np.abs(Kd - K).max() <= 1e-12 * sc
        if not layer_ok:
            fails.append(fail('k0 is not the symmetrised kernel matrix (plus edge restraint matrix) for the arguments of this shell', sig=None,
                              case=case, s=s, rel=float(np.abs(Kd - K).max() / sc)))
        if w.min() < -1e-8:
            fails.append(fail('k0 not positive semi-definite', sig=KERNEL_FINDINGS.get((case['model'], 'psd')) if layer_ok else None, case=case, s=s,
                              min_eig_scaled=float(w.min())))
        kuu = cc.k0uu.toarray()
        if kuu.shape[0] != size - len(cc.excluded_dofs) or np.abs(kuu - np.delete(np.delete(K, cc.excluded_dofs, 0), cc.excluded_dofs, 1)).max() != 0:
            fails.append(fail('k0uu is not k0 with the prescribed amplitudes removed', sig=None, case=case))
        if not case['classical']:
            break
        Kr = rs.energy_hessian(cc, cc.F) + rs.edge_hessian(cc)
        D = (K - Kr)[np.ix_(free, free)]
        errs.append(float(np.abs(D).max() / sc))
        Ks.append(K)
        last = (cc, K, Kr, sc)
    execs = len(ss)
    if case['classical'] and not [f for f in fails if not f['sig']]:
        cc, K, Kr, sc = last
        free = np.arange(3, K.shape[0])
        bad = False
        if case['alpha'] == 0:
            bad = errs[0] > 1e-11
        else:
            # the section approximation must converge to the energy Hessian at the rate 1/s^2: Richardson limit + rate
            Kinf = Ks[2] + (Ks[2] - Ks[1]) / 3.0
            errs.append(float(np.abs((Kinf - Kr)[np.ix_(free, free)]).max() / sc))
            bad = errs[3] > 1e-6 or not (errs[1] < 0.4 * errs[0] + 1e-12 and errs[2] < 0.4 * errs[1] + 1e-12)
        if bad:
            sig = KERNEL_FINDINGS.get((case['model'], 'energy-cone' if case['alpha'] else 'energy-cyl'))
            fails.append(fail('k0 is not the Hessian of the strain energy of the package\'s own linear strain field' +
                              (' (explained by the %s kernel itself: Python layer verified against a direct kernel call)' % case['model'] if sig else ''),
                              sig=sig, case=case, rel_errors_for_s20_s40_s80_richardson=errs))
    return dict(fails=fails[:4], execs=execs, transitions=execs, nontrivial=1, errs=errs)


def check_cyl(case):
    """dedicated cylinder kernels == cone kernels at zero semi-vertex angle (direct kernel calls)"""
    from compmech.conecyl import modelDB
    fails = []
    cc = rs.shell_of(cfg_of(dict(case, alpha=0.0)))
    cc._rebuild()
    cc.calc_k0(silent=True)
    fk0, fk0_cyl, fkG0, fkG0_cyl, k0edges = modelDB.get_linear_matrices(cc, None)
    iso = 'iso_' in cc.model
    a = (cc.E11, cc.nu, cc.h) if iso else (cc.F,)
    Kc = fk0_cyl(cc.r2, cc.L, *a, cc.m1, cc.m2, cc.n2).toarray()
    worst = 0.0
    for s in (20, 80):
        Kk = fk0(0.0, cc.r2, cc.L, *a, cc.m1, cc.m2, cc.n2, s).toarray()
        worst = max(worst, np.abs(Kk - Kc).max() / np.abs(Kc).max())
    if worst > 1e-10:
        fails.append(fail('dedicated cylinder stiffness matrix differs from the cone matrix at zero semi-vertex angle', sig=KERNEL_FINDINGS.get((case['model'], 'cyl-vs-cone0')), case=case, rel=float(worst)))
    for (Fc, P, T) in ((1.0e3, 0., 0.), (0., 2.0e4, 0.), (0., 0., 30.), (1.0e3, 2.0e4, 30.)):
        Gc = fkG0_cyl(Fc, P, T, cc.r2, cc.L, cc.m1, cc.m2, cc.n2).toarray()
        Gk = fkG0(Fc, P, T, cc.r2, 0.0, cc.L, cc.m1, cc.m2, cc.n2, 40).toarray()
        if np.abs(Gc - Gk).max() > 1e-10 * (np.abs(Gc).max() + 1e-300):
            fails.append(fail('dedicated cylinder geometric matrix differs from the cone matrix at zero semi-vertex angle', sig=KERNEL_FINDINGS.get((case['model'], 'kg-cyl-vs-cone0')), case=case,
                              load=[Fc, P, T]))
    return dict(fails=fails, execs=7, transitions=7, nontrivial=1)


def check_kg(case):
    """kG0 linear in (Fc, P, T); combined-load split adds up to the combined matrix"""
    fails = []
    base = dict(case, geo='g1')
    loads = [(-1.0e3, 0., 0.), (0., -2.0e4, 0.), (0., 0., 30.), (-1.0e3, -2.0e4, 30.), (2.0e3, 1.0e4, -10.)]
    G = {}
    for (Fc, P, T) in loads:
        cfg = cfg_of(base)
        cfg.update(Fc=Fc, P=P, T=T)
        cc = rs.shell_of(cfg)
        cc._calc_linear_matrices(silent=True)
        G[(Fc, P, T)] = cc.kG0.toarray()
        if np.abs(G[(Fc, P, T)] - G[(Fc, P, T)].T).max() > 1e-12 * (np.abs(G[(Fc, P, T)]).max() + 1e-300):
            fails.append(fail('kG0 not symmetric', sig=None, case=case, load=[Fc, P, T]))
    sc = np.abs(G[loads[3]]).max() + 1e-300
    if np.abs(G[loads[0]] + G[loads[1]] + G[loads[2]] - G[loads[3]]).max() > 1e-11 * sc:
        fails.append(fail('kG0 is not additive in axial force, pressure and torque', sig=None, case=case))
    comb = -2.0 * G[loads[0]] - 0.5 * G[loads[1]] - G[loads[2]] / 3.0
    if np.abs(comb - G[loads[4]]).max() > 1e-11 * sc:
        fails.append(fail('kG0 is not linear in (Fc, P, T)', sig=None, case=case))
    cfg = cfg_of(base)
    cfg.update(Fc=loads[3][0], P=loads[3][1], T=loads[3][2])
    for clc in (1, 2, 3):
        cc = rs.shell_of(cfg)
        cc._calc_linear_matrices(combined_load_case=clc, silent=True)
        parts = dict(Fc=cc.kG0_Fc.toarray(), P=cc.kG0_P.toarray(), T=cc.kG0_T.toarray())
        tot = parts['Fc'] + parts['P'] + parts['T']
        if np.abs(tot - G[loads[3]]).max() > 1e-11 * sc:
            fails.append(fail('combined-load split of kG0 does not add up to the combined matrix', sig=None, case=case, combined_load_case=clc))
        # each part is the geometric matrix of its own load alone
        for nm, single in (('Fc', G[loads[0]]), ('P', G[loads[1]]), ('T', G[loads[2]])):
            if np.abs(parts[nm] - single).max() > 1e-11 * sc:
                fails.append(fail('part kG0_%s of the combined-load split is not the geometric matrix of that load alone' % nm, sig=None, case=case,
                                  combined_load_case=clc))
    return dict(fails=fails, execs=8, transitions=8, nontrivial=1)


def check_iso(case):
    fails = []
    gen = case['model'][4:]
    base = dict(case, geo='g1', ords=(2, 2, 2))
    ci = rs.shell_of(cfg_of(base))
    ci.calc_k0(silent=True)
    cfg = cfg_of(dict(base, model=gen))
    cg = rs.shell_of(cfg)
    cg.stack, cg.plyt, cg.laminaprop = [0.], 1.0e-3, (71.0e9, 71.0e9, 0.33)
    cg.calc_k0(silent=True)
    A, B = ci.k0.toarray(), cg.k0.toarray()
    if np.abs(A - B).max() > 1e-10 * np.abs(B).max():
        fails.append(fail('isotropic short-cut model differs from the general model fed an isotropic laminate',
                          sig=KERNEL_FINDINGS.get((case['model'], 'iso-vs-general-cone')) if case['alpha'] else None, case=case,
                          rel=float(np.abs(A - B).max() / np.abs(B).max())))
    return dict(fails=fails, execs=2, transitions=1, nontrivial=1)


def check_redef(case):
    """the linear matrices are re-evaluated (as every buckling analysis does) after the definition was changed on the same object"""
    fails = []
    M2 = (38.0e9, 9.2e9, 0.26, 3.5e9, 3.2e9, 2.7e9)

    def change(cc):
        c = case['change']
        if c == 'laminaprop':
            cc.laminaprop = M2
            cc.laminaprops = []
        elif c == 'laminaprops':
            cc.laminaprops = [M2 for _ in cc.stack]
        elif c == 'stack':
            cc.stack = [t + 20. for t in cc.stack]
        elif c == 'plyt':
            cc.plyt = 0.2e-3
            cc.plyts = []
        elif c == 'r2':
            cc.r2 = 0.31
        elif c == 'alphadeg':
            cc.alphadeg = cc.alphadeg + 12.0
            cc.L = None             # the shell is defined by (r2, H): the meridional length follows the new angle
        elif c == 'edge':
            cc.kuBot, cc.kphixTop = 2.0e6, 7.0e2
        elif c == 'loads':
            cc.Fc, cc.P, cc.T = 2.5e3, -1.0e4, 12.0
        elif c == 'orders':
            cc.m2, cc.n2 = 3, 3

    def mk():
        cfg = cfg_of(dict(model=case['model'], alpha=case['alpha'], geo='g1', ords=(2, 2, 2), lam='general'))
        cfg.update(Fc=1.0e3, P=-2.0e3, T=5.0)
        return rs.shell_of(cfg)
    a = mk()
    a._calc_linear_matrices(silent=True)
    change(a)
    a._calc_linear_matrices(silent=True)
    b = mk()
    change(b)
    b._calc_linear_matrices(silent=True)
    for nm in ('k0', 'kG0'):
        A, B = getattr(a, nm).toarray(), getattr(b, nm).toarray()
        if A.shape != B.shape or np.abs(A - B).max() > 1e-12 * (np.abs(B).max() + 1e-300):
            sig = None
            if nm == 'kG0' and case['change'] in ('r2', 'alphadeg') and A.shape == B.shape:
                # explained-by: the line load Nxxtop derived from Fc at the first evaluation is kept (Fc effectively rescaled)
                c0 = mk()
                c0._rebuild()
                fac = (b.r2 * b.cosa) / (c0.r2 * c0.cosa)
                b2 = mk()
                change(b2)
                b2.Fc = b2.Fc * fac
                b2._calc_linear_matrices(silent=True)
                if np.abs(A - b2.kG0.toarray()).max() <= 1e-11 * (np.abs(A).max() + 1e-300):
                    sig = SIG_NXX
            fails.append(fail('%s re-evaluated after changing "%s" on the same shell differs from a freshly defined shell' % (nm, case['change']),
                              sig=sig, case=case, rel=float(np.abs(A - B).max() / (np.abs(B).max() + 1e-300)) if A.shape == B.shape else None))
    return dict(fails=fails, execs=3, transitions=3, nontrivial=1)


def check_case(case):
    if case['kind'] == 'redef':
        return check_redef(case)
    if case['kind'] == 'inventory':
        return dict(fails=[], execs=1, nontrivial=0, skipped=case['skipped'])
    return dict(k0=check_k0, cyl=check_cyl, kg=check_kg, iso=check_iso, bcname=check_bcname)[case['kind']](case)


def summarize(results, tier, seed):
    cone = [r['errs'] for r in results if r.get('errs') and len(r['errs']) == 4 and not r['fails']]
    return dict(models=models(), skipped_models=[s for r in results for s in r.get('skipped', [])],
                max_cylinder_rel_error=max([r['errs'][0] for r in results if r.get('errs') and len(r['errs']) == 1] or [0]),
                cone_rel_error_s20_s40_s80_richardson_max=[max(e[i] for e in cone) for i in range(4)] if cone else None)
