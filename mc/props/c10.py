"""C10 - Bardell functions, integral tables and quadrature tables are exact.

Full products (no sampling) through ctypes on a shared library built from the *current* lib/src:
  funcs : calc_f/fxi/fxixi and calc_vec_* : all i<30 x rational abscissae x flag letters
  full  : 6 full-interval families, all 900 (i,j), generic flags + all 256 0/1 settings on i,j<4
  sub   : 6 sub-interval families, all 900 (i,j) x all ordered endpoint pairs of a rational grid,
          + additivity + (-1,1) == full-interval family
  c0c1  : 5 mapped-argument families, all 900 (i,j) x (c0,c1) letters mapping into [-1,1]
  gauss : leggauss_quad n=2..64: moments k<=2n-1, symmetry, positivity
  grid  : trapz2d_points/simps2d_points: sizes 2..N, weights sum, linear / bicubic exactness
Oracle: exact rational polynomials (mc/ref/bardell.py).
"""
import ctypes
import itertools
from fractions import Fraction as Fr

import numpy as np

from ..core import fail, seed_eps
from ..ref import bardell as rb

RULE = ('one case = one (family, endpoint/mapping/flag letter) block of all 900 index pairs, or one function '
        'kind over all indices and abscissae, or one quadrature order; non-trivial = the block contains '
        'non-zero reference values that differ from the flags-all-one full-interval block')
ASSUMPTIONS = ['lib/src/*.c compiled with gcc -O0 from the current tree and called through ctypes',
               'tolerance = 2e3*eps*conditioning scale (sum of |monomial terms|), see DESIGN 2.4']

FULL = {'integral_ff': (0, 0), 'integral_ffxi': (0, 1), 'integral_ffxixi': (0, 2),
        'integral_fxifxi': (1, 1), 'integral_fxifxixi': (1, 2), 'integral_fxixifxixi': (2, 2)}
SUB = {k + '_12': v for k, v in FULL.items()}
C0C1 = {'integral_ff_c0c1': (0, 0), 'integral_ffxi_c0c1': (0, 1), 'integral_fxif_c0c1': (1, 0),
        'integral_fxifxi_c0c1': (1, 1), 'integral_fxixifxixi_c0c1': (2, 2)}
GRID = [Fr(-1), Fr(-3, 4), Fr(-1, 3), Fr(-1, 8), Fr(0), Fr(1, 16), Fr(1, 4), Fr(1, 2), Fr(1)]
ABSC = sorted(set([Fr(k, 8) for k in range(-8, 9)] + [Fr(k, 12) for k in range(-12, 13)] +
                  [Fr(k, 10) for k in range(-10, 11)]))
C0C1_LETTERS = [(Fr(0), Fr(1)), (Fr(0), Fr(1, 2)), (Fr(1, 2), Fr(1, 2)), (Fr(-1, 2), Fr(1, 2)),
                (Fr(1, 4), Fr(-3, 4)), (Fr(0), Fr(-1)), (Fr(-1, 3), Fr(2, 3)), (Fr(1, 8), Fr(1, 8)),
                (Fr(3, 4), Fr(1, 4)), (Fr(0), Fr(0)), (Fr(-3, 5), Fr(1, 5)), (Fr(1, 3), Fr(-1, 2))]
EPS = 2.220446049250313e-16
CTOL = 2e3
STRICT = 1e-9
SIG_TABLES = 'C10:sub-interval-integral-tables-lose-accuracy-by-cancellation'

_lib = None


def lib():
    global _lib
    if _lib is None:
        from .. import build
        L = ctypes.CDLL(build.bardell_lib())
        d, i, p = ctypes.c_double, ctypes.c_int, ctypes.POINTER(ctypes.c_double)
        for n in FULL:
            getattr(L, n).restype = d
            getattr(L, n).argtypes = [i, i] + [d] * 8
        for n in list(SUB) + list(C0C1):
            getattr(L, n).restype = d
            getattr(L, n).argtypes = [d, d, i, i] + [d] * 8
        for n in ('calc_f', 'calc_fxi', 'calc_fxixi'):
            getattr(L, n).restype = d
            getattr(L, n).argtypes = [i, d] + [d] * 4
        for n in ('calc_vec_f', 'calc_vec_fxi', 'calc_vec_fxixi'):
            getattr(L, n).restype = None
            getattr(L, n).argtypes = [p, d] + [d] * 4
        L.leggauss_quad.restype = None
        L.leggauss_quad.argtypes = [i, p, p]
        _lib = L
    return _lib


def generic_flags(seed):
    base = [0.71, 1.13, 0.53, 1.37, 0.89, 1.61, 0.67, 1.19]
    return [b + 0.05 * seed_eps(seed, 100 + k) for k, b in enumerate(base)]


def flag_settings(tier, seed):
    out = [('ones', [1.0] * 8), ('generic', generic_flags(seed))]
    return out


def cases(tier, seed):
    cs = []
    for kind in ('f', 'fxi', 'fxixi'):
        cs.append(dict(kind='funcs', fn=kind, seed=seed))
    for fam in FULL:
        cs.append(dict(kind='full', fam=fam, seed=seed))
    grid = GRID
    pairs = [(a, b) for a in grid for b in grid if a <= b]
    if tier == 'quick':
        keep = {Fr(-1), Fr(-1, 3), Fr(0), Fr(1, 4), Fr(1)}
        pairs = [(a, b) for a, b in pairs if a in keep and b in keep]
    for fam in SUB:
        for a, b in pairs:
            cs.append(dict(kind='sub', fam=fam, x1=str(a), x2=str(b), seed=seed))
    letters = C0C1_LETTERS if tier == 'thorough' else C0C1_LETTERS[:7]
    for fam in C0C1:
        for c0, c1 in letters:
            cs.append(dict(kind='c0c1', fam=fam, c0=str(c0), c1=str(c1), seed=seed))
    for n in range(2, 65):
        cs.append(dict(kind='gauss', n=n))
    nmax = 200 if tier == 'thorough' else 40
    for rule in ('trapz2d_points', 'simps2d_points'):
        for lo in range(2, nmax + 1, 13):
            cs.append(dict(kind='grid', rule=rule, n_lo=lo, n_hi=min(lo + 12, nmax), seed=seed))
    return cs


def _cmp_block(name, got, ref, scale, what, extra):
    tol = CTOL * EPS * scale + 1e-300
    err = np.abs(got - ref)
    bad = np.argwhere(err > tol)
    fails = []
    if bad.size:
        i, j = bad[np.argmax((err / tol)[tuple(bad.T)])]
        fails.append(fail('%s: %s differs from the exact integral' % (name, what), sig=None,
                          i=int(i), j=int(j), got=float(got[i, j]), expected=float(ref[i, j]),
                          tol=float(tol[i, j]), n_bad=int(len(bad)), **extra))
    zero = (ref == 0) & (scale == 0)
    return fails, float(np.max(err / tol))


def check_case(case):
    L = lib()
    kind = case['kind']
    fails = []
    ratio = 0.0
    nontrivial = 1
    if kind == 'funcs':
        d = {'f': 0, 'fxi': 1, 'fxixi': 2}[case['fn']]
        P = rb.polys()[d]
        sc, vec = getattr(L, 'calc_' + case['fn']), getattr(L, 'calc_vec_' + case['fn'])
        fl_letters = [[1., 1., 1., 1.], generic_flags(case['seed'])[:4], [0., 1., 1., 1.], [1., 0., 1., 1.],
                      [1., 1., 0., 1.], [1., 1., 1., 0.], [0., 0., 0., 0.]]
        Cabs = np.abs(rb.coef_float(d))
        n_eval = 0
        for x in ABSC:
            exact = np.array([float(rb.horner(P[i], x)) for i in range(30)])
            xf = float(x)
            scale = Cabs.dot(np.array([abs(xf) ** p for p in range(30)]))
            for fl in fl_letters:
                fv = rb.flagvec(*fl)
                buf = (ctypes.c_double * 30)()
                vec(buf, xf, *fl)
                gv = np.array(buf[:])
                gs = np.array([sc(i, xf, *fl) for i in range(30)])
                n_eval += 60
                tol = CTOL * EPS * scale * np.maximum(np.abs(fv), 1e-300) + 1e-300
                for nm, g in (('calc_vec_' + case['fn'], gv), ('calc_' + case['fn'], gs)):
                    err = np.abs(g - exact * fv)
                    ratio = max(ratio, float(np.max(err / tol)))
                    bad = np.where(err > tol)[0]
                    if bad.size:
                        i = int(bad[0])
                        fails.append(fail('%s(i=%d) differs from Bardell polynomial' % (nm, i), sig=None,
                                          xi=str(x), flags=fl, got=float(g[i]), expected=float(exact[i] * fv[i]),
                                          tol=float(tol[i])))
                        break
        return dict(fails=fails[:5], execs=n_eval, transitions=n_eval, max_err_over_tol=ratio)
    if kind == 'full':
        da, db = FULL[case['fam']]
        fn = getattr(L, case['fam'])
        T, S = rb.table(da, db)
        n_eval = 0
        for nm, fl in flag_settings('quick', case['seed']):
            got = np.array([[fn(i, j, *fl) for j in range(30)] for i in range(30)])
            n_eval += 900
            fx, fy = rb.flagvec(*fl[:4]), rb.flagvec(*fl[4:])
            # the full-interval tables are literal constants (15 significant digits): no evaluation error to allow for, the
            # tolerance is relative to the exact entry itself, and exact zeros must be returned as zeros
            Tref = T * np.outer(fx, fy)
            f, r = _cmp_block(case['fam'], got, Tref, np.abs(Tref) * (1e-13 / (CTOL * EPS)),
                              'flags=%s' % nm, dict(flags=fl))
            fails += f
            ratio = max(ratio, r)
        # all 256 zero/one settings on the 16 pairs with i,j<4
        for bits in itertools.product([0., 1.], repeat=8):
            fl = list(bits)
            got = np.array([[fn(i, j, *fl) for j in range(4)] for i in range(4)])
            n_eval += 16
            fx, fy = np.array(fl[:4]), np.array(fl[4:])
            ref = T[:4, :4] * np.outer(fx, fy)
            err = np.abs(got - ref)
            tol = CTOL * EPS * S[:4, :4]
            if np.any(err > tol) or np.any((ref == 0) & (got != 0)):
                i, j = np.argwhere((err > tol) | ((ref == 0) & (got != 0)))[0]
                fails.append(fail('%s: wrong value for 0/1 flag setting' % case['fam'], sig=None,
                                  i=int(i), j=int(j), flags=fl, got=float(got[i, j]), expected=float(ref[i, j])))
                break
        return dict(fails=fails[:5], execs=n_eval, transitions=n_eval, max_err_over_tol=ratio)
    if kind == 'sub':
        da, db = SUB[case['fam']]
        fn = getattr(L, case['fam'])
        x1, x2 = Fr(case['x1']), Fr(case['x2'])
        T, S = rb.table(da, db, x1, x2)
        fl = generic_flags(case['seed'])
        fx, fy = rb.flagvec(*fl[:4]), rb.flagvec(*fl[4:])
        got = np.array([[fn(float(x1), float(x2), i, j, *fl) for j in range(30)] for i in range(30)])
        n_eval = 900
        f, ratio = _cmp_block(case['fam'], got, T * np.outer(fx, fy), S * np.outer(fx, fy),
                              'sub-interval [%s,%s]' % (x1, x2), dict(x1=str(x1), x2=str(x2), flags=fl))
        fails += f
        if not f and x1 != x2:
            # tier 1: accuracy relative to the natural scale of the entry, sqrt(Int (D^da f_i)^2 Int (D^db f_j)^2) over the same interval
            # (what a backward-stable evaluation delivers); deviations inside the envelope of the expanded formula but beyond this
            # are the known loss of accuracy by cancellation
            Ta = T if da == db else rb.table(da, da, x1, x2)[0]
            Tb = T if da == db else rb.table(db, db, x1, x2)[0]
            if da == db:
                Ta = Tb = T
            nat = np.sqrt(np.abs(np.outer(np.diag(Ta), np.diag(Tb)))) * np.outer(np.abs(fx), np.abs(fy))
            rel = np.abs(got - T * np.outer(fx, fy)) / (nat + 1e-300)
            rel[nat == 0] = 0.0
            if rel.max() > STRICT:
                i, j = np.unravel_index(np.argmax(rel), rel.shape)
                first = int(min(max(a, b) for a, b in np.argwhere(rel > STRICT)))
                fails.append(fail('%s: sub-interval value differs from the exact integral by more than 1e-9 of the natural entry scale '
                                  '(inside the floating-point envelope of the generated expanded formula: cancellation)' % case['fam'],
                                  sig=SIG_TABLES, x1=str(x1), x2=str(x2), worst_index=[int(i), int(j)], worst_rel=float(rel[i, j]),
                                  first_index_beyond_1e9=first, got=float(got[i, j]), expected=float(T[i, j] * fx[i] * fy[j])))
        if x1 == -1 and x2 == 1:
            full = getattr(L, case['fam'][:-3])
            gf = np.array([[full(i, j, *fl) for j in range(30)] for i in range(30)])
            n_eval += 900
            tol = CTOL * EPS * S * np.outer(fx, fy)
            if np.any(np.abs(gf - got) > tol):
                i, j = np.argwhere(np.abs(gf - got) > tol)[0]
                fails.append(fail('%s(-1,1) differs from full-interval family' % case['fam'], i=int(i), j=int(j),
                                  got=float(got[i, j]), full=float(gf[i, j])))
        # additivity through a mid letter of the grid
        mids = [g for g in GRID if x1 < g < x2]
        if mids:
            xm = mids[len(mids) // 2]
            g1 = np.array([[fn(float(x1), float(xm), i, j, *fl) for j in range(30)] for i in range(30)])
            g2 = np.array([[fn(float(xm), float(x2), i, j, *fl) for j in range(30)] for i in range(30)])
            n_eval += 1800
            tol = 3 * CTOL * EPS * S * np.outer(fx, fy)
            if np.any(np.abs(g1 + g2 - got) > tol):
                i, j = np.argwhere(np.abs(g1 + g2 - got) > tol)[0]
                fails.append(fail('%s not additive over adjacent sub-intervals' % case['fam'], i=int(i), j=int(j),
                                  x1=str(x1), xm=str(xm), x2=str(x2)))
        nontrivial = int(x1 != x2)
        return dict(fails=fails[:5], execs=n_eval, transitions=n_eval, max_err_over_tol=ratio, nontrivial=nontrivial)
    if kind == 'c0c1':
        da, db = C0C1[case['fam']]
        fn = getattr(L, case['fam'])
        c0, c1 = Fr(case['c0']), Fr(case['c1'])
        T, S = rb.table_c0c1(da, db, c0, c1)
        fl = generic_flags(case['seed'])
        fx, fy = rb.flagvec(*fl[:4]), rb.flagvec(*fl[4:])
        got = np.array([[fn(float(c0), float(c1), i, j, *fl) for j in range(30)] for i in range(30)])
        f, ratio = _cmp_block(case['fam'], got, T * np.outer(fx, fy), S * np.outer(fx, fy),
                              'mapped argument c0=%s c1=%s' % (c0, c1), dict(c0=str(c0), c1=str(c1), flags=fl))
        fails += f
        return dict(fails=fails[:5], execs=900, transitions=900, max_err_over_tol=ratio)
    if kind == 'gauss':
        n = case['n']
        pts = (ctypes.c_double * n)()
        wts = (ctypes.c_double * n)()
        L.leggauss_quad(n, pts, wts)
        x = [Fr(v) for v in pts[:]]          # exact binary rationals of the stored doubles
        w = [Fr(v) for v in wts[:]]
        xf, wf = np.array(pts[:]), np.array(wts[:])
        if np.any(wf <= 0):
            fails.append(fail('leggauss_quad: non-positive weight', n=n))
        if np.any(np.abs(xf + xf[::-1]) > 4 * EPS) or np.any(np.abs(wf - wf[::-1]) > 4 * EPS):
            fails.append(fail('leggauss_quad: points/weights not symmetric', n=n))
        if np.any(np.diff(xf) <= 0) or xf[0] <= -1 or xf[-1] >= 1:
            fails.append(fail('leggauss_quad: points not strictly increasing inside (-1,1)', n=n))
        worst = 0.0
        for k in range(0, 2 * n):
            s = sum(wi * xi ** k for wi, xi in zip(w, x))          # exact sum of the stored table
            exact = Fr(2, k + 1) if k % 2 == 0 else Fr(0)
            err = abs(float(s - exact))
            # rounding of n stored doubles: each point/weight carries <= eps/2 relative error
            tol = 8 * EPS * (1 + k) * 2.0 / (k + 1) + 4 * EPS
            worst = max(worst, err / tol)
            if err > tol:
                fails.append(fail('leggauss_quad: monomial moment not exact', n=n, k=k, got=float(s),
                                  expected=float(exact), tol=tol))
                break
        return dict(fails=fails, execs=2 * n, transitions=2 * n, max_err_over_tol=worst)
    if kind == 'grid':
        from compmech.integrate.integrate import trapz2d_points, simps2d_points
        fn = dict(trapz2d_points=trapz2d_points, simps2d_points=simps2d_points)[case['rule']]
        e = seed_eps(case['seed'], 7, 0.05)
        rects = [(0., 1., 0., 1.), (-0.3 + e, 2.1, 0.4, 0.9 + e), (1.5, 1.75 + e, -2., 3.)]
        n_eval = 0
        for nx in range(case['n_lo'], case['n_hi'] + 1):
            for ny in sorted({nx, 2, 3, max(2, nx - 1)}):
                for (x0, x1, y0, y1) in rects:
                    xs, ys, al, be = map(np.asarray, fn(x0, x1, nx, y0, y1, ny))
                    n_eval += 1
                    area = (x1 - x0) * (y1 - y0)
                    w = al * be
                    tol = 1e-12 * area * 50
                    mons = [(0, 0), (1, 0), (0, 1), (1, 1)]
                    if case['rule'].startswith('simps'):
                        mons += [(2, 0), (3, 0), (0, 3), (3, 3), (2, 3), (3, 1)]
                    for (p, q) in mons:
                        got = float(np.sum(w * xs ** p * ys ** q))
                        ex = (x1 ** (p + 1) - x0 ** (p + 1)) / (p + 1) * (y1 ** (q + 1) - y0 ** (q + 1)) / (q + 1)
                        sc_ = max(abs(x0), abs(x1)) ** p * max(abs(y0), abs(y1)) ** q * area
                        if abs(got - ex) > 1e-11 * sc_:
                            fails.append(fail('%s does not integrate x^%d y^%d exactly' % (case['rule'], p, q),
                                              nx=nx, ny=ny, rect=[x0, x1, y0, y1], got=got, expected=ex))
                            break
                    if np.any(xs < x0 - 1e-12) or np.any(xs > x1 + 1e-12) or np.any(ys < y0 - 1e-12) or np.any(ys > y1 + 1e-12):
                        fails.append(fail('%s: point outside the rectangle' % case['rule'], nx=nx, ny=ny))
                    if len(fails) > 3:
                        return dict(fails=fails, execs=n_eval, transitions=n_eval)
        return dict(fails=fails, execs=n_eval, transitions=n_eval)
    raise ValueError(kind)


def summarize(results, tier, seed):
    return dict(max_err_over_tol=max(r.get('max_err_over_tol', 0) for r in results),
                tolerance_rule='|got-exact| <= %g*eps*sum|monomial terms|' % CTOL,
                c_function_calls=sum(r.get('execs', 0) for r in results))
