"""C03 - geometric stiffness = Hessian of the pre-stress work, constant load or from a Ritz state.

(a) 'const': configuration lattice as in C02 (model incl. cone, geometry, 24 flags, orders, sub-interval, placement,
    finalize) x load-triple letters; oracle ref.kG; only w amplitudes touched; symmetry; linearity edges (scale, add).
(b) 'state': full product model{plate,cpanel} x laminate x flags-base x orders x state letter x Gauss orders x
    laminate-table form; oracle: reference N = A eps + B kappa of the state at the same Gauss points; uniform membrane
    state == constant-load matrix; per-point table equal to the uniform one changes nothing.
"""
import itertools

import numpy as np

from .. import pan
from ..core import fail, seed_eps
from . import c02

RULE = ('const: lattice point (<=k deviations) x load triple; state: one element of the full product; non-trivial = reference matrix '
        'has non-zero entries and differs from that of the base configuration')
ASSUMPTIONS = ['state-based path: same Gauss-Legendre points as the package (numpy leggauss vs lib table, C10 checks the table)',
               'tolerance 1e-11 of summand magnitude (const), 1e-9 of max|kG| (state, quadrature of high-degree polynomials)']
RTOL = 1e-11
TRIPLES = [(-1.0, 0.0, 0.0), (0.0, -1.0, 0.0), (0.0, 0.0, 1.0), (0.3, -0.7, 0.45), (2.0, 2.0, -1.0)]
COORDS = {k: v for k, v in c02.COORDS.items() if k not in ('lam', 'offset', 'preload', 'ortho')}
COORDS['triple'] = list(range(len(TRIPLES)))


def cases(tier, seed):
    k = 2 if tier == 'quick' else 3
    pts = pan.lattice(COORDS, k)
    cone_base = {q: COORDS[q][0] for q in COORDS}
    cone_base.update(model='kpanel', alpha=15.0)
    pts += pan.lattice(COORDS, k - 1, base=cone_base)
    seen, out = set(), []
    for c in pts:
        key = tuple(sorted((q, str(v)) for q, v in c.items() if q != '_ndev'))
        if key not in seen:
            seen.add(key)
            out.append(dict(kind='const', lp={q: v for q, v in c.items() if q != '_ndev' and v != COORDS[q][0]}, seed=seed))
    # state-based path: full product
    ords = [(2, 2), (3, 4), (4, 4), (5, 4)] + ([(5, 5), (6, 2), (4, 6)] if tier == 'thorough' else [])
    for model, lam, fb, (m, n), st, gq, form in itertools.product(
            ['plate', 'cpanel'], ['general', 'cross_unsym', 'uni0'], ['FFFF', 'SSSS', 'generic'], ords,
            ['membrane', 'generic', 'bending', 'nl'], ['exact', 'plus3', 'two', 'n64'], ['6x6', 'perpoint_same', 'perpoint_var']):
        if st == 'membrane' and (fb != 'FFFF' or m < 4 or n < 4):
            continue
        if gq == 'n64' and (form != '6x6' or (m, n) != ords[0]):
            continue
        if tier == 'quick' and gq == 'plus3' and form == 'perpoint_var':
            continue
        out.append(dict(kind='state', model=model, lam=lam, fbase=fb, m=m, n=n, state=st, gq=gq, form=form, seed=seed))
    # every supported quadrature order that integrates the integrand exactly (one direction at a time), uniform membrane state
    for model, direction in itertools.product(['plate', 'cpanel'], ['x', 'y']):
        out.append(dict(kind='gauss_sweep', model=model, direction=direction, seed=seed))
    return out


def full_point(lp):
    c = {q: COORDS[q][0] for q in COORDS}
    c.update(lp)
    c.update(lam='general', offset='0', preload=0)
    return c


def check_const(case):
    lp = full_point(case['lp'])
    cfg = c02.expand(lp, case['seed'])
    if c02.invalid_geometry(cfg):
        return dict(fails=[], execs=0, nontrivial=0)
    tri = TRIPLES[lp['triple']]
    fails = []
    p = pan.make_panel(cfg)
    nloc = (1 if cfg['model'] == 'plate_w' else 3) * cfg['m'] * cfg['n']
    size, r0, c0 = pan.placement(cfg, nloc)

    def kg(t, fin=cfg['finalize']):
        p.Nxx, p.Nyy, p.Nxy = t
        return pan.dense(p.calc_kG0(size=size, row0=r0, col0=c0, silent=True, finalize=fin))
    K = kg(tri)
    ref, lam = pan.make_ref(cfg)
    Kr = pan.rp.embed(ref.kG(*tri), size, r0, c0)
    a, b = cfg['a'], cfg['b']
    S = pan.rp.embed(ref.scale_of([('w', 'w', abs(tri[0]) * b / a, 1, 1, 0, 0), ('w', 'w', abs(tri[1]) * a / b, 0, 0, 1, 1),
                                   ('w', 'w', abs(tri[2]), 1, 0, 0, 1), ('w', 'w', abs(tri[2]), 0, 1, 1, 0)]), size, r0, c0)
    got, exp = (K, Kr) if cfg['finalize'] else (np.triu(K), np.triu(Kr))
    tru = (lambda A: A) if cfg['finalize'] else np.triu
    sterms = [('w', 'w', abs(tri[0]) * b / a, 1, 1, 0, 0), ('w', 'w', abs(tri[1]) * a / b, 0, 0, 1, 1),
              ('w', 'w', abs(tri[2]), 1, 0, 0, 1), ('w', 'w', abs(tri[2]), 0, 1, 1, 0)]

    def build(rv):
        return tru(pan.rp.embed(rv.kG(*tri), size, r0, c0)), tru(pan.rp.embed(rv.scale_of(sterms), size, r0, c0))
    status, ratio, idx, info = pan.tiered(ref, got, exp, tru(S), RTOL, build)
    if status == 'known':
        fails.append(fail('calc_kG0 (constant load) differs from the Hessian of the pre-stress work by more than 1e-9 of the natural entry scale '
                          '(explained by the sub-interval integral tables alone)', sig=pan.SIG_TABLES, cfg=cfg, triple=tri, index=idx,
                          got=float(got[idx]), expected=float(exp[idx]), **info))
    elif status == 'violation':
        fails.append(fail('calc_kG0 (constant load) ' + (info['kind'] if info else 'differs from the Hessian of the pre-stress work'), sig=None, cfg=cfg,
                          triple=tri, index=idx, got=float(got[idx]), expected=float(exp[idx])))
    # only w amplitudes of this panel are touched
    nd = 1 if cfg['model'] == 'plate_w' else 3
    wmask = np.zeros(size, dtype=bool)
    wmask[r0 + nd - 1:r0 + nloc:nd] = True
    if np.any(K[~wmask, :] != 0) or np.any(K[:, ~wmask] != 0):
        fails.append(fail('calc_kG0 touches amplitudes other than the out-of-plane ones of this panel', sig=None, cfg=cfg))
    execs, trans = 1, 0
    if cfg['finalize']:
        if np.abs(K - K.T).max() > 0:
            fails.append(fail('kG0 not symmetric', sig=None, cfg=cfg))
        # linearity edges between real executions
        K2 = kg(tuple(-2.5 * t for t in tri))
        other = TRIPLES[(lp['triple'] + 1) % len(TRIPLES)]
        K3 = kg(other)
        K4 = kg(tuple(x + y for x, y in zip(tri, other)))
        execs += 3
        trans += 2
        So = pan.rp.embed(ref.scale_of([('w', 'w', abs(other[0]) * b / a, 1, 1, 0, 0), ('w', 'w', abs(other[1]) * a / b, 0, 0, 1, 1),
                                        ('w', 'w', abs(other[2]), 1, 0, 0, 1), ('w', 'w', abs(other[2]), 0, 1, 1, 0)]), size, r0, c0)
        if pan.worst(K2, -2.5 * K, S, 10 * RTOL)[0] > 1:
            fails.append(fail('kG0 not homogeneous in the load triple', sig=None, cfg=cfg, triple=tri))
        if pan.worst(K4, K + K3, S + So, 10 * RTOL)[0] > 1:
            fails.append(fail('kG0 not additive in the load triple', sig=None, cfg=cfg, triple=tri, other=other))
    # edge: re-used Panel object whose definition is changed between two evaluations == freshly defined object
    nb, q = pan.neighbour(lp, COORDS, case['lp'])
    if nb is not None and cfg['finalize'] and not fails:
        cfg_nb = c02.expand(dict(nb, lam='general', offset='0', preload=0), case['seed'])
        p2 = pan.make_panel(cfg_nb)
        p2.Nxx, p2.Nyy, p2.Nxy = tri
        s2 = pan.placement(cfg_nb, (1 if cfg_nb['model'] == 'plate_w' else 3) * cfg_nb['m'] * cfg_nb['n'])
        p2.calc_kG0(size=s2[0], row0=s2[1], col0=s2[2], silent=True)
        pan.retarget(p2, cfg)
        Kre = pan.dense(p2.calc_kG0(size=size, row0=r0, col0=c0, silent=True))
        execs += 2
        trans += 1
        if pan.worst(Kre, K, S, RTOL)[0] > 1:
            fails.append(fail('kG0 of a re-used Panel object whose definition was changed differs from that of a freshly defined panel',
                              sig=None, cfg=cfg, changed=q))
    return dict(fails=fails, execs=execs, transitions=trans + len(case['lp']), max_ratio=ratio, nontrivial=1)


def membrane_state(ref, exx, eyy, gxy):
    """Amplitudes representing u = exx*x + gxy/2*y, v = eyy*y + gxy/2*x, w = 0 (needs all flags non-zero)."""
    xs, ys = np.meshgrid(np.linspace(0, ref.a, 7), np.linspace(0, ref.b, 6))
    xs, ys = xs.ravel(), ys.ravel()
    B = ref.basis_at(xs, ys)
    c = np.zeros(ref.size)
    for k, (dof, target) in enumerate((('u', exx * xs + 0.5 * gxy * ys), ('v', eyy * ys + 0.5 * gxy * xs))):
        Fx, Gy = B[dof]
        Phi = np.einsum('pi,pj->pji', Fx[0], Gy[0]).reshape(len(xs), -1)
        sol = np.linalg.lstsq(Phi, target, rcond=None)[0]
        assert np.abs(Phi.dot(sol) - target).max() <= 1e-12 * (np.abs(target).max() + 1e-300), 'membrane state not representable'
        c.reshape(ref.n, ref.m, 3)[:, :, k] = sol.reshape(ref.n, ref.m)
    return c


def check_state(case):
    seed = case['seed']
    cfg = dict(model=case['model'], a=2.0, b=1.0, r=3.0, lam=case['lam'], offset='+d' if case['lam'] == 'uni0' else '0',
               fbase=case['fbase'], m=case['m'], n=case['n'], seed=seed)
    p = pan.make_panel(cfg)
    ref, lam = pan.make_ref(cfg)
    F = lam['ABD']
    m, n = cfg['m'], cfg['n']
    fails = []
    # Gauss orders: integrand degree: N (deg of strains <= m+2 ... ) times two slopes
    exact_x, exact_y = (3 * (m + 3)) // 2 + 1, (3 * (n + 3)) // 2 + 1
    if case['state'] == 'nl':
        exact_x, exact_y = 2 * (m + 3) + 1, 2 * (n + 3) + 1
    nx, ny = dict(exact=(exact_x, exact_y), plus3=(exact_x + 3, exact_y + 3), two=(2, 2), n64=(64, 64))[case['gq']]
    nx, ny = min(nx, 64), min(ny, 64)
    h = lam['h']
    rng_c = np.array([seed_eps(seed, 1000 + i) for i in range(ref.size)])
    nl = case['state'] == 'nl'
    if case['state'] == 'membrane':
        if case['model'] != 'plate':
            eps0 = (1e-4, 0.0, 0.0)        # curved: only axial strain keeps the stress uniform without w
        else:
            eps0 = (1e-4, -2.3e-4, 0.7e-4)
        c = membrane_state(ref.base, *eps0)
    elif case['state'] == 'bending':
        c = np.zeros(ref.size)
        c[2::3] = h * rng_c[2::3]
    else:
        c = 1e-4 * rng_c
        c[2::3] = (2.0 if nl else 0.5) * h * rng_c[2::3]
    c = c * ref.active()
    if case['form'] == '6x6':
        Fin, Fref = F.copy(), F
    elif case['form'] == 'perpoint_same':
        Fin = np.ascontiguousarray(np.broadcast_to(F, (nx, ny, 6, 6)))
        Fref = F
    else:
        scale = 1.0 + 0.3 * np.sin(1.0 + np.arange(nx * ny)).reshape(nx, ny)
        Fin = np.ascontiguousarray(F[None, None, :, :] * scale[:, :, None, None])
        Fref = Fin.reshape(nx * ny, 6, 6)
    p.calc_k0(silent=True)            # builds the laminate
    c_in = c.copy()
    Fin_copy = Fin.copy()
    K = pan.dense(p.calc_kG0(c=c_in, nx=nx, ny=ny, Fnxny=Fin, silent=True, NLgeom=nl))
    if not np.array_equal(c_in, c) or not np.array_equal(Fin, Fin_copy):
        fails.append(fail('calc_kG0 modified its input state or laminate table', sig=None, case=case))
    Kr, N = ref.base.kG_from_state(c, Fref, nx, ny, nl=nl)
    sc = np.abs(Kr).max() + 1e-300
    err = np.abs(K - Kr).max() / sc
    if err > 1e-9:
        fails.append(fail('calc_kG0 from a Ritz state differs from the reference with N = A eps + B kappa of that state', sig=None,
                          case=case, nx=nx, ny=ny, rel_err=float(err)))
    if np.abs(K - K.T).max() > 1e-12 * sc:
        fails.append(fail('state-based kG not symmetric', sig=None, case=case))
    execs, trans = 1, 0
    if case['state'] == 'membrane' and case['form'] != 'perpoint_var' and case['gq'] != 'two':
        Nc = F[:3, :3].dot(np.array(eps0))
        p.Nxx, p.Nyy, p.Nxy = Nc
        Kc = pan.dense(p.calc_kG0(silent=True))
        execs += 1
        trans += 1
        if np.abs(K - Kc).max() > 1e-9 * np.abs(Kc).max():
            fails.append(fail('uniform membrane state does not reproduce the constant-load geometric matrix', sig=None, case=case,
                              N=Nc, rel_err=float(np.abs(K - Kc).max() / np.abs(Kc).max())))
    if not nl and case['gq'] in ('exact', 'two'):
        # the state-based matrix is linear in the state (linear strains): holds for any amplitude level, also for states whose
        # amplitudes are far below / above the ones a unit load produces
        for sfac in (1e-6, 1e-3, 1e4):
            Ks = pan.dense(p.calc_kG0(c=sfac * c, nx=nx, ny=ny, Fnxny=Fin.copy(), silent=True, NLgeom=False))
            execs += 1
            trans += 1
            if np.abs(Ks - sfac * K).max() > 1e-9 * sfac * sc:
                fails.append(fail('state-based kG is not homogeneous in the amplitudes of the state', sig=None, case=case, factor=sfac,
                                  max_abs_state=float(np.abs(sfac * c).max()), rel_err=float(np.abs(Ks - sfac * K).max() / (sfac * sc))))
                break
    if case['form'] == 'perpoint_same':
        K6 = pan.dense(p.calc_kG0(c=c.copy(), nx=nx, ny=ny, Fnxny=F.copy(), silent=True, NLgeom=nl))
        Kd = pan.dense(p.calc_kG0(c=c.copy(), nx=nx, ny=ny, silent=True, NLgeom=nl))
        execs += 2
        trans += 2
        if np.abs(K6 - K).max() > 1e-13 * sc:
            fails.append(fail('per-point laminate table equal to the uniform laminate changes kG', sig=None, case=case))
        if np.abs(Kd - K).max() > 1e-13 * sc:
            fails.append(fail("default laminate (panel's own F) differs from passing it explicitly", sig=None, case=case))
        # history on the same object: force_orthotropic_laminate switched on for one evaluation and off again
        p.force_orthotropic_laminate = True
        p.calc_kG0(c=c.copy(), nx=nx, ny=ny, silent=True, NLgeom=nl)
        p.force_orthotropic_laminate = False
        Kd2 = pan.dense(p.calc_kG0(c=c.copy(), nx=nx, ny=ny, silent=True, NLgeom=nl))
        execs += 2
        trans += 2
        if np.abs(Kd2 - Kd).max() > 1e-13 * sc:
            fails.append(fail('state-based kG after force_orthotropic_laminate was switched on and off again on the same object differs from before',
                              sig=None, case=case, rel=float(np.abs(Kd2 - Kd).max() / sc)))
    return dict(fails=fails, execs=execs, transitions=trans + 1, max_ratio=err / 1e-9, nontrivial=int(sc > 1e-200))


def check_sweep(case):
    seed = case['seed']
    cfg = dict(model=case['model'], a=2.0, b=1.0, r=3.0, lam='general', offset='0', fbase='FFFF', m=4, n=4, seed=seed)
    p = pan.make_panel(cfg)
    ref, lam = pan.make_ref(cfg)
    F = lam['ABD']
    eps0 = (1e-4, 0.0, 0.0) if case['model'] != 'plate' else (1e-4, -2.3e-4, 0.7e-4)
    c = membrane_state(ref.base, *eps0) * ref.active()
    p.calc_k0(silent=True)
    p.Nxx, p.Nyy, p.Nxy = F[:3, :3].dot(np.array(eps0))
    Kc = pan.dense(p.calc_kG0(silent=True))
    sc = np.abs(Kc).max()
    exact = (3 * (4 + 3)) // 2 + 1
    fails = []
    execs = 1
    for nq in range(exact, 65):
        nx, ny = (nq, exact) if case['direction'] == 'x' else (exact, nq)
        K = pan.dense(p.calc_kG0(c=c.copy(), nx=nx, ny=ny, silent=True))
        execs += 1
        if np.abs(K - Kc).max() > 1e-9 * sc:
            fails.append(fail('uniform membrane state does not reproduce the constant-load geometric matrix for a quadrature order that integrates the '
                              'integrand exactly', sig=None, case=case, nx=nx, ny=ny, rel_err=float(np.abs(K - Kc).max() / sc)))
            if len(fails) > 2:
                break
    return dict(fails=fails, execs=execs, transitions=execs, nontrivial=1)


def check_case(case):
    return dict(const=check_const, state=check_state, gauss_sweep=check_sweep)[case['kind']](case)


def summarize(results, tier, seed):
    return dict(deviation_bound_completed=2 if tier == 'quick' else 3, caps_hit=False,
                max_err_over_tol=max(r.get('max_ratio', 0) for r in results),
                const_cases=sum(1 for r in results if r['case']['kind'] == 'const'),
                state_cases=sum(1 for r in results if r['case']['kind'] == 'state'))
