"""C07 - static analysis: load vector = virtual work of the loads; K c = f is solved.

Full products over structure kind x force-set letters x load factor x restraint pattern:
  panels (plate, plate_w, cpanel, kpanel), assemblies of 2..4 panels (row/column offsets), bays with 0..2 stiffeners
  (forces on skin, base and flange).
Oracle for the force vector: the package's own displacement report - for a *complete basis* of unit amplitude vectors e_k,
fext . e_k == sum_forces F . u(x_F; e_k) (x inc for incrementable forces); by linearity this covers every amplitude vector.
Oracle for the solution: K c = f on active amplitudes, zero elsewhere, linear dependence on the loads (edges).
"""
import itertools

import numpy as np

from .. import pan
from ..core import fail, seed_eps

RULE = ('one case = one structure x force-set letter x load factor x restraint pattern; inside it the complete unit basis of amplitude '
        'vectors is used; non-trivial = at least one force with a non-zero component acting on a non-restrained location')
ASSUMPTIONS = ["displacements at the force locations are the package's own field report (C11 checks it against the series)",
               'tolerance 1e-11 of the summand magnitude; residual of K c = f 1e-9 relative']


def force_sets(a, b, seed):
    e = lambda k: seed_eps(seed, 60 + k, 0.01)
    P = dict(interior=(0.37 * a + e(1), 0.61 * b + e(2)), edge=(a, 0.4 * b), corner=(a, b), origin=(0.0, 0.0), mid=(0.5 * a, 0.5 * b))
    gen = (1.3, -0.7, 2.9)
    return {
        'none': [],
        'one_z_cte': [(P['interior'], (0., 0., 1.), True)],
        'one_gen_inc': [(P['interior'], gen, False)],
        'edge_x_cte+corner_inc': [(P['edge'], (1., 0., 0.), True), (P['corner'], (0.3, 0.8, -1.1), False)],
        'same_point_twice': [(P['mid'], (0., 1., 0.5), True), (P['mid'], (0., 1., 0.5), False)],
        'three_mixed': [(P['interior'], gen, True), (P['origin'], (0., 0., 1.), False), (P['edge'], (0., -2., 0.), False)],
        # a point that returns after another point was evaluated in between (constant A, constant B, incrementable A, constant B)
        'point_revisited': [(P['interior'], gen, True), (P['edge'], (0., -2., 0.), True), (P['interior'], (0.5, 0.2, -1.0), False),
                            (P['edge'], (1., 0., 0.3), True)],
    }


def cases(tier, seed):
    out = []
    for model, fs, inc, fb in itertools.product(['plate', 'cpanel', 'plate_w', 'kpanel'], list(force_sets(1, 1, 0)), [1.0, 0.37, 0.0],
                                                ['SSSS', 'FFFF', 'generic', 'CFFF']):
        if inc == 0.0 and fb not in ('SSSS', 'FFFF'):
            continue
        out.append(dict(kind='panel', model=model, fset=fs, inc=inc, fbase=fb, seed=seed))
    L = 3 if tier == 'quick' else 4
    for n in range(2, L + 1):
        for seq in itertools.product('ABC', repeat=n):
            if tier == 'quick' and n == 3 and seq[0] != 'A':
                continue
            for inc in (1.0, 0.37, 0.0):
                if inc == 0.0 and n > 2:
                    continue
                out.append(dict(kind='assembly', seq=''.join(seq), inc=inc, seed=seed))
    for curved, stiffs, where in itertools.product([0, 1], [(), ('b1d_f',), ('b2d_f',), ('t2d',), ('b2d_f', 't2d'), ('t2d', 'b2d_bf')],
                                                   ['skin', 'stiff', 'both', 'stiff_last']):
        if where != 'skin' and not any(s[0] in 'bt' and '2d' in s for s in stiffs):
            continue
        if where == 'stiff_last' and len(stiffs) < 2:
            continue
        out.append(dict(kind='bay', curved=curved, stiffs=list(stiffs), where=where, seed=seed))
    # constructed systems through compmech.analysis.static: spring chains (every interior column sums to exactly zero), with null rows,
    # and the same matrix object modified in place between two solves
    for n, nullpat, hist in itertools.product([5, 12, 40], ['none', 'third'], ['single', 'inplace_scale', 'inplace_diag']):
        out.append(dict(kind='chain', n=n, null=nullpat, hist=hist, seed=seed))
    return out


def check_chain(case):
    from compmech.analysis import static
    from scipy.sparse import csr_matrix
    n = case['n']
    T = 2.0 * np.eye(n) - np.eye(n, k=1) - np.eye(n, k=-1)
    Kd = 64.0 * T.dot(T)                      # pentadiagonal, positive definite, interior column sums exactly zero
    if case['null'] == 'none':
        idx = np.arange(n); N = n
    else:
        idx = np.array([i + i // 2 for i in range(n)]); N = int(idx[-1]) + 2
    Kb = np.zeros((N, N)); Kb[np.ix_(idx, idx)] = Kd
    f = np.zeros(N); f[idx] = np.cos(1.0 + 0.7 * np.arange(n))
    fails = []
    K = csr_matrix(Kb)
    ctx = dict(case=case)
    incs, cs = static(K, f.copy(), silent=True)
    check_solution(K, f, np.asarray(cs[0], dtype=float), fails, ctx, what='static solution of a spring chain')
    execs = 1
    if case['hist'] != 'single':
        # the same matrix object, values changed in place (sparsity pattern kept), solved again
        if case['hist'] == 'inplace_scale':
            K *= 0.8
        else:
            K.setdiag(K.diagonal() * 1.5)
        incs, cs = static(K, f.copy(), silent=True)
        execs += 1
        check_solution(K, f, np.asarray(cs[0], dtype=float), fails, ctx, what='static solution after the matrix was modified in place')
    return dict(fails=fails[:4], execs=execs, transitions=execs, nontrivial=1)


def unit_work(uvw_fn, size, forces, inc, nd=3):
    """sum over forces of F . u(x_F; e_k) for every unit amplitude vector e_k, through the package's field report."""
    out = np.zeros(size)
    scale = np.zeros(size)
    if not forces:
        return out, scale
    xs = np.array([f[0][0] for f in forces])
    ys = np.array([f[0][1] for f in forces])
    for k in range(size):
        e = np.zeros(size); e[k] = 1.0
        u, v, w = uvw_fn(e, xs, ys)
        for i, (pos, comp, cte) in enumerate(forces):
            fac = 1.0 if cte else inc
            out[k] += fac * (comp[0] * u[i] + comp[1] * v[i] + comp[2] * w[i])
            scale[k] += abs(fac) * (abs(comp[0] * u[i]) + abs(comp[1] * v[i]) + abs(comp[2] * w[i]))
    return out, scale


def check_solution(K, f, c, fails, ctx, what='static solution'):
    K = pan.dense(K)
    null = (np.abs(K).sum(axis=0) == 0)
    if np.any(c[null] != 0):
        fails.append(fail('%s is not zero on amplitudes without stiffness' % what, sig=None, **ctx))
    act = ~null
    res = K[np.ix_(act, act)].dot(c[act]) - f[act]
    sc = np.abs(K[np.ix_(act, act)]).dot(np.abs(c[act])).max() + np.abs(f).max() + 1e-300
    if np.abs(res).max() > 1e-8 * sc:
        fails.append(fail('%s does not satisfy K c = f on the active amplitudes' % what, sig=None, residual=float(np.abs(res).max() / sc), **ctx))


def check_panel(case):
    seed = case['seed']
    cfg = dict(model=case['model'], a=0.6, b=0.4, r=1.5, alphadeg=12.0, lam='general', m=3, n=4, fbase=case['fbase'], seed=seed)
    fails = []
    forces = force_sets(cfg['a'], cfg['b'], seed)[case['fset']]
    nd = 1 if case['model'] == 'plate_w' else 3

    def build(scale=1.0, which=None):
        p = pan.make_panel(cfg)
        for k, (pos, comp, cte) in enumerate(forces):
            if which is not None and k not in which:
                continue
            p.add_force(pos[0], pos[1], scale * comp[0], scale * comp[1], scale * comp[2], cte=cte)
        return p
    p = build()
    size = nd * cfg['m'] * cfg['n']
    try:
        fext = np.asarray(p.calc_fext(inc=case['inc'], silent=True), dtype=float)
    except Exception as e:
        return dict(fails=[fail('calc_fext raises for this model', sig='C07:calc_fext-raises:%s' % case['model'], case=case, error=repr(e)[:200])],
                    nontrivial=1)

    def uvw_fn(e, xs, ys):
        u, v, w, _, _ = p.uvw(e, xs=xs.copy(), ys=ys.copy())
        return np.ravel(u), np.ravel(v), np.ravel(w)
    work, scale = unit_work(uvw_fn, size, forces, case['inc'], nd)
    bad = np.abs(fext - work) > 1e-11 * scale + 1e-300
    if fext.shape != (size,) or np.any(bad):
        k = int(np.argmax(np.abs(fext - work))) if fext.shape == (size,) else -1
        fails.append(fail('external force vector is not the virtual work of the point forces against the reported displacements', sig=None,
                          case=case, amplitude=k, got=float(fext[k]) if k >= 0 else None, expected=float(work[k]) if k >= 0 else None))
    execs = size + 1
    # same-object history: the force values are changed in place (same number of forces) and the vector is requested again
    if forces:
        for lst in (p.forces, p.forces_inc):
            for f in lst:
                f[2], f[3], f[4] = -2.5 * f[2], -2.5 * f[3], -2.5 * f[4]
        fext2 = np.asarray(p.calc_fext(inc=case['inc'], silent=True), dtype=float)
        execs += 1
        if np.any(np.abs(fext2 + 2.5 * fext) > 1e-11 * 2.5 * scale + 1e-300):
            fails.append(fail('force vector of a re-used object does not follow force values changed after an earlier evaluation', sig=None, case=case))
        for lst in (p.forces, p.forces_inc):
            for f in lst:
                f[2], f[3], f[4] = f[2] / -2.5, f[3] / -2.5, f[4] / -2.5
    # linear static solution (load factor 1 by definition of the linear analysis)
    restrained = case['fbase'] in ('SSSS', 'CFFF')      # K must be positive definite on the active amplitudes
    if forces and case['inc'] == 1.0 and restrained:
        cs = p.static(silent=True)
        c = np.asarray(cs[0], dtype=float)
        K = p.calc_k0(silent=True)
        f1 = np.asarray(p.calc_fext(silent=True), dtype=float)
        check_solution(K, f1, c, fails, dict(case=case))
        execs += 3
        # increment settings prepared for a later non-linear run must not enter the linear analysis (it is an analysis at full load)
        pm = build()
        pm.analysis.maxInc, pm.analysis.initialInc = 0.5, 0.25
        cm = np.asarray(pm.static(silent=True)[0], dtype=float)
        execs += 1
        if np.abs(cm - c).max() > 1e-12 * (np.abs(c).max() + 1e-300):
            fails.append(fail('linear static solution depends on the increment settings of the analysis object (maxInc, initialInc)', sig=None, case=case,
                              rel=float(np.abs(cm - c).max() / (np.abs(c).max() + 1e-300))))
        # linearity edges: scale the loads, split the load set
        c2 = np.asarray(build(scale=-2.5).static(silent=True)[0], dtype=float)
        if np.abs(c2 + 2.5 * c).max() > 1e-9 * (np.abs(c).max() + 1e-300):
            fails.append(fail('static solution does not scale linearly with the loads', sig=None, case=case))
        if len(forces) > 1:
            ca = np.asarray(build(which=[0]).static(silent=True)[0], dtype=float)
            cb = np.asarray(build(which=list(range(1, len(forces)))).static(silent=True)[0], dtype=float)
            execs += 2
            if np.abs(ca + cb - c).max() > 1e-9 * (np.abs(c).max() + 1e-300):
                fails.append(fail('static solution is not additive in the loads', sig=None, case=case))
    return dict(fails=fails[:5], execs=execs, transitions=execs, nontrivial=int(bool(forces)))


def check_assembly(case):
    from compmech.panel.assembly import PanelAssembly
    from compmech.analysis import static
    from .c13 import PTYPES
    seed = case['seed']
    fails = []
    panels = []
    for i, t in enumerate(case['seq']):
        d = PTYPES[t]
        p = pan.make_panel(dict(model='plate', a=0.6, b=d['b'], lam=d['lam'], m=d['m'], n=d['n'], fbase='SSSS', seed=seed))
        for f in ('u2ty', 'v2ty', 'w2ty', 'w2ry', 'u1ty', 'v1ty', 'w1ty', 'w1ry'):
            setattr(p, f, 1.0)
        if i == 0:
            p.u1ty = p.v1ty = p.w1ty = 0.0
        panels.append(p)
    forces = {}
    fs0 = force_sets(0.6, PTYPES[case['seq'][0]]['b'], seed)
    forces[0] = fs0['one_gen_inc']
    forces[len(panels) - 1] = force_sets(0.6, PTYPES[case['seq'][-1]]['b'], seed)['edge_x_cte+corner_inc'] + forces.get(len(panels) - 1, [])
    for i, fl in forces.items():
        for pos, comp, cte in fl:
            panels[i].add_force(pos[0], pos[1], *comp, cte=cte)
    conn = [dict(p1=panels[i], p2=panels[i + 1], func='SSycte', ycte1=panels[i].b, ycte2=0.) for i in range(len(panels) - 1)]
    assy = PanelAssembly(panels, conn)
    size = assy.get_size()
    fext = np.asarray(assy.calc_fext(inc=case['inc'], silent=True), dtype=float)
    work = np.zeros(size); scale = np.zeros(size)
    off = 0
    execs = 1
    for i, p in enumerate(panels):
        n = 3 * p.m * p.n

        def uvw_fn(e, xs, ys, p=p):
            u, v, w, _, _ = p.uvw(e, xs=xs.copy(), ys=ys.copy())
            return np.ravel(u), np.ravel(v), np.ravel(w)
        wk, sc = unit_work(uvw_fn, n, forces.get(i, []), case['inc'])
        work[off:off + n], scale[off:off + n] = wk, sc
        off += n
        execs += n
    if fext.shape != (size,) or np.any(np.abs(fext - work) > 1e-11 * scale + 1e-300):
        k = int(np.argmax(np.abs(fext - work)))
        fails.append(fail("assembly force vector is not the virtual work of each panel's forces placed at that panel's range", sig=None,
                          case=case, amplitude=k, got=float(fext[k]), expected=float(work[k])))
    if case['inc'] == 1.0:
        K = assy.calc_k0(silent=True)
        incs, cs = static(K, fext, silent=True)
        check_solution(K, fext, np.asarray(cs[0], dtype=float), fails, dict(case=case), what='assembly static solution')
        execs += 2
    return dict(fails=fails[:5], execs=execs, transitions=execs, nontrivial=1)


def check_bay(case):
    from compmech.analysis import static
    from .c13 import mk_bay, stiff_size, global_order
    seed = case['seed']
    fails = []
    cuts = [1, 3][:max(1, len(case['stiffs']))] if case['stiffs'] else [1]
    spb = mk_bay(case['curved'], cuts, case['stiffs'], seed)
    a, b = spb.a, spb.b
    nskin = 3 * spb.m * spb.n
    from .c13 import CUTS
    # the third force acts exactly on the line shared by two skin strips
    skin_forces = [((0.37 * a, 0.61 * b), (1.3, -0.7, 2.9)), ((a, 0.4 * b), (0., 0., -1.)),
                   ((0.52 * a, CUTS[cuts[0]] * b), (0.4, 0.9, -1.7))] if case['where'] in ('skin', 'both') else []
    for pos, comp in skin_forces:
        spb.forces_skin.append([pos[0], pos[1], comp[0], comp[1], comp[2]])
    stiff_forces = {}
    if case['where'] in ('stiff', 'both', 'stiff_last'):
        last = global_order(case['stiffs'])[-1] if case['where'] == 'stiff_last' else None     # only the last stiffener of the global vector carries forces
        for k, s in enumerate(spb.stiffeners):
            if last is not None and k != last:
                continue
            if hasattr(s, 'flange') and s.flange is not None and hasattr(s.flange, 'add_force') and stiff_size(case['stiffs'][k]):
                s.flange.add_force(0.3 * a, 0.5 * s.flange.b, 0.5, 0., 1.5)
                stiff_forces[(k, 'flange')] = [((0.3 * a, 0.5 * s.flange.b), (0.5, 0., 1.5), True)]
            if case['stiffs'][k] == 't2d':
                s.base.add_force(0.8 * a, 0.25 * s.base.b, 0., 1., -2.)
                stiff_forces[(k, 'base')] = [((0.8 * a, 0.25 * s.base.b), (0., 1., -2.), True)]
    spb.calc_k0(silent=True)
    size = spb.get_size()
    try:
        fext = np.asarray(spb.calc_fext(silent=True), dtype=float)
    except Exception as e:
        return dict(fails=[fail('StiffPanelBay.calc_fext raises', sig='C07:bay-calc_fext-raises:%s' % ('skin' if skin_forces else 'stiff'),
                                case=case, error=repr(e)[:200])], nontrivial=1)
    execs = 1
    work = np.zeros(size); scale = np.zeros(size)

    def skin_uvw(e, xs, ys):
        full = np.zeros(size); full[:nskin] = e
        u, v, w, _, _ = spb.uvw_skin(full, xs=xs.copy(), ys=ys.copy())
        return np.ravel(u), np.ravel(v), np.ravel(w)
    wk, sc = unit_work(skin_uvw, nskin, [(p, c, True) for p, c in skin_forces], 1.0)
    work[:nskin], scale[:nskin] = wk, sc
    execs += nskin
    order = global_order(case['stiffs'])
    o = nskin
    for k in order:
        s = spb.stiffeners[k]
        parts = ([('base', s.base)] if case['stiffs'][k] == 't2d' else []) + [('flange', s.flange)]
        for region, part in parts:
            n = 3 * part.m * part.n
            fl = stiff_forces.get((k, region), [])
            if fl:
                def st_uvw(e, xs, ys, part=part):
                    u, v, w, _, _ = part.uvw(e, xs=xs.copy(), ys=ys.copy())
                    return np.ravel(u), np.ravel(v), np.ravel(w)
                wk, sc = unit_work(st_uvw, n, fl, 1.0)
                work[o:o + n], scale[o:o + n] = wk, sc
                execs += n
            o += n
    if fext.shape != (size,):
        fails.append(fail('bay force vector has the wrong size', sig=None, case=case, got=list(fext.shape), expected=size))
    elif np.any(np.abs(fext - work) > 1e-11 * scale + 1e-300):
        k = int(np.argmax(np.abs(fext - work)))
        fails.append(fail('bay force vector is not the virtual work of the skin/base/flange forces at the respective ranges of amplitudes',
                          sig=None, case=case, amplitude=k, got=float(fext[k]), expected=float(work[k])))
    else:
        K = spb.calc_k0(silent=True)
        incs, cs = static(K, fext, silent=True)
        check_solution(K, fext, np.asarray(cs[0], dtype=float), fails, dict(case=case), what='bay static solution')
        execs += 2
    return dict(fails=fails[:5], execs=execs, transitions=execs, nontrivial=1)


def check_case(case):
    return dict(panel=check_panel, assembly=check_assembly, bay=check_bay, chain=check_chain)[case['kind']](case)
