"""C11 - recovered displacement / strain / stress fields match the Ritz series and the Donnell kinematics.

Full products over small alphabets: model x flag base x series orders x amplitude letter (complete unit basis, generic,
w-only, u-only) x point-set letter x strain option; complete product thread count 1..16 x point count 1..33; panels
inside assemblies (own slice of the global vector) and bay skin / stiffener regions.  Oracle: mc/ref/panel.py.
"""
import itertools

import numpy as np

from .. import pan
from ..core import fail, seed_eps

RULE = ('one case = (model, flag base, orders, amplitude letter group, point set) or one (thread count, point count) pair or one '
        'assembly/bay composition; non-trivial = amplitude vector with at least one active non-zero amplitude')
ASSUMPTIONS = ['reference evaluates the exact Bardell polynomials by Horner (orders <= 12); tolerance 1e-11 of the summand magnitude']
SIG_NL = 'C11:nonlinear-strain-terms-are-sum-of-squares'
RTOL = 1e-11
ORDS = [(1, 1), (2, 3), (4, 4), (6, 3), (3, 12)]


def point_sets(seed, a, b):
    e = lambda k: seed_eps(seed, 40 + k, 0.02)
    return {
        'single': (np.array([0.37 * a + e(1)]), np.array([0.61 * b + e(2)])),
        'edges': (np.array([0., a, 0., a, 0.5 * a, 0., a, 0.3 * a]), np.array([0., 0., b, b, 0., 0.4 * b, 0.7 * b, b])),
        'scatter7': (np.array([.11, .29, .43, .5, .68, .83, .97]) * a + e(3), np.array([.9, .13, .57, .5, .02, .71, .33]) * b),
        'grid': tuple(g.ravel() for g in np.meshgrid(np.linspace(0, a, 5), np.linspace(0, b, 4))),
        # 2-D point arrays that are not C-contiguous (transposed mesh): results must keep the caller's indexing
        'grid2d_T': tuple(g.T for g in np.meshgrid(np.linspace(0, a, 5), np.linspace(0.1 * b, b, 4))),
    }


def cases(tier, seed):
    out = []
    for model, fb, (m, n), pset in itertools.product(['plate', 'cpanel', 'plate_w'], ['SSSS', 'FFFF', 'generic'], ORDS,
                                                     ['single', 'edges', 'scatter7', 'grid', 'grid2d_T']):
        if tier == 'quick' and pset in ('edges', 'grid', 'grid2d_T') and (m, n) not in [(2, 3), (4, 4)]:
            continue
        out.append(dict(kind='panel', model=model, fbase=fb, m=m, n=n, pset=pset, seed=seed))
    for model in (['plate'] if tier == 'quick' else ['plate', 'cpanel', 'plate_w']):
        for cores in range(1, 17):
            out.append(dict(kind='threads', model=model, cores=cores, seed=seed))
    for comp in ['assembly2', 'assembly3', 'bay_b2d', 'bay_t2d', 'bay_plain', 'bay_t2d_b2d', 'bay_b2d_t2d_b2d']:
        out.append(dict(kind='comp', comp=comp, seed=seed))
    return out


def amp_letters(ref, seed):
    n = ref.size
    nd = ref.nd
    letters = []
    unit = list(range(n)) if n <= 48 else list(range(0, n, max(1, n // 24)))
    for k in unit:
        c = np.zeros(n); c[k] = 1.0
        letters.append(('unit%d' % k, c))
    g = np.array([seed_eps(seed, 500 + i) for i in range(n)])
    letters.append(('generic', 1e-3 * g))
    big = 1e-3 * g.copy()
    big[nd - 1::nd] *= 30.0
    letters.append(('generic_largew', big))
    wonly = np.zeros(n); wonly[nd - 1::nd] = 2e-3 * g[nd - 1::nd]
    letters.append(('w_only', wonly))
    if nd == 3:
        uonly = np.zeros(n); uonly[0::3] = 1e-3 * g[0::3]
        letters.append(('u_only', uonly))
    return letters


def cmp_field(name, got, exp, scale, fails, ctx, sig=None):
    got, exp = np.asarray(got, dtype=float).ravel(), np.asarray(exp, dtype=float).ravel()
    tol = RTOL * scale + 1e-300
    bad = np.abs(got - exp) > tol
    if got.shape != exp.shape or np.any(bad):
        i = int(np.argmax(np.abs(got - exp) / tol)) if got.shape == exp.shape else -1
        fails.append(fail('%s differs from the Ritz series / kinematics' % name, sig=sig, point=i,
                          got=float(got[i]) if i >= 0 else None, expected=float(exp[i]) if i >= 0 else None, **ctx))
        return False
    return True


def field_scales(ref, c, xs, ys):
    """Magnitude of the summands of each field at each point (abs amplitudes x abs basis values)."""
    sv = pan.rp.PanelRef.__new__(pan.rp.PanelRef)
    sv.__dict__.update(ref.__dict__)
    ca = np.abs(c)
    B = ref.basis_at(xs, ys)
    # |basis values| plus a rounding-level share of the conditioning of the polynomial evaluation (the basis functions vanish at
    # restrained edges, where both the package and the reference return rounding noise of the size eps * sum |monomial terms|)
    from ..ref import bardell as rb
    xi = 2 * np.asarray(xs, dtype=float) / ref.a - 1
    eta = 2 * np.asarray(ys, dtype=float) / ref.b - 1
    k = 100 * 2.220446049250313e-16 / RTOL
    Ba = {}
    for d in B:
        fxf = [ref.flags['%s%s' % (d, s_)] for s_ in ('1tx', '1rx', '2tx', '2rx')]
        fyf = [ref.flags['%s%s' % (d, s_)] for s_ in ('1ty', '1ry', '2ty', '2ry')]
        Ba[d] = ([np.abs(B[d][0][q]) + k * rb.eval_all_cond(xi, q, ref.m, fxf) for q in range(3)],
                 [np.abs(B[d][1][q]) + k * rb.eval_all_cond(eta, q, ref.n, fyf) for q in range(3)])
    f = lambda dof, dx=0, dy=0: sv.field(ca, xs, ys, dof, dx, dy, Ba)
    w, wx, wy = f('w'), f('w', 1, 0), f('w', 0, 1)
    out = dict(w=w, wx=wx, wy=wy, kxx=f('w', 2, 0), kyy=f('w', 0, 2), kxy=2 * f('w', 1, 1))
    if 'u' in ref.dofs:
        out.update(u=f('u'), v=f('v'), exx=f('u', 1, 0), eyy=f('v', 0, 1), gxy=f('u', 0, 1) + f('v', 1, 0))
    else:
        z = np.zeros_like(w)
        out.update(u=z, v=z, exx=z, eyy=z, gxy=z)
    if ref.r:
        out['eyy'] = out['eyy'] + w / ref.r
    return out


def check_panel(case):
    seed = case['seed']
    cfg = dict(model=case['model'], a=2.0, b=1.0, r=3.0, lam='general', m=case['m'], n=case['n'], fbase=case['fbase'], seed=seed)
    p = pan.make_panel(cfg)
    ref, lam = pan.make_ref(cfg)
    ref = ref.base
    F = lam['ABD']
    xs_in, ys_in = point_sets(seed, cfg['a'], cfg['b'])[case['pset']]
    xs, ys = np.array(xs_in).ravel(), np.array(ys_in).ravel()       # C-order flattening = the caller's [i, j] indexing
    fails = []
    execs = 0
    known = 0
    for nm, c in amp_letters(ref, seed):
        ctx = dict(case=case, amplitudes=nm)
        cin = c.copy()
        u = v = w = phix = phiy = None
        u, v, w, phix, phiy = p.uvw(cin, xs=xs_in.copy(order='K'), ys=ys_in.copy(order='K'))
        if np.shape(w) != np.shape(xs_in):
            fails.append(fail('field arrays do not have the shape of the requested point arrays', sig=None, **ctx))
        execs += 1
        if not np.array_equal(cin, c):
            fails.append(fail('uvw modified the amplitude vector', sig=None, **ctx))
        ru, rv, rw, rpx, rpy = ref.uvw(c, xs, ys)
        S = field_scales(ref, c, xs, ys)
        ok = cmp_field('w', w, rw, S['w'], fails, ctx) and cmp_field('phix', phix, rpx, S['wx'], fails, ctx) and \
            cmp_field('phiy', phiy, rpy, S['wy'], fails, ctx)
        if ref.nd == 3:
            ok = ok and cmp_field('u', u, ru, S['u'], fails, ctx) and cmp_field('v', v, rv, S['v'], fails, ctx)
        if case['model'] == 'plate_w':
            continue                       # the w-only field module offers displacements only
        for nl in (False, True):
            res = p.strain(c.copy(), xs=xs_in.copy(order='K'), ys=ys_in.copy(order='K'), NLterms=nl)
            if np.abs(np.asarray(res['x']) - xs_in).max() != 0 or np.abs(np.asarray(res['y']) - ys_in).max() != 0:
                fails.append(fail('strain report does not return the requested coordinates', sig=None, **ctx))
            execs += 1
            got = np.array([res[k].ravel() for k in ('exx', 'eyy', 'gxy', 'kxx', 'kyy', 'kxy')])
            exp = ref.strain(c, xs, ys, nl=nl)
            Sn = [S['exx'] + (S['wx'] ** 2 if nl else 0), S['eyy'] + (S['wy'] ** 2 if nl else 0), S['gxy'] + (S['wx'] * S['wy'] if nl else 0),
                  S['kxx'], S['kyy'], S['kxy']]
            sig = None
            if nl:
                alt = ref.strain(c, xs, ys, nl=True, nl_sum_of_squares=True)
                if all(np.all(np.abs(got[k] - alt[k]) <= RTOL * Sn[k] + 1e-300) for k in range(6)) and \
                        not all(np.all(np.abs(got[k] - exp[k]) <= RTOL * Sn[k] + 1e-300) for k in range(6)):
                    sig = SIG_NL
            good = True
            for k, key in enumerate(('exx', 'eyy', 'gxy', 'kxx', 'kyy', 'kxy')):
                if not cmp_field('strain %s (NLterms=%s)' % (key, nl), got[k], exp[k], Sn[k], fails, ctx, sig=sig):
                    good = False
                    break
            # stress = F * (the strains the package reports for the same request)
            st = p.stress(c.copy(), xs=xs_in.copy(order='K'), ys=ys_in.copy(order='K'), NLterms=nl)
            execs += 1
            gotN = np.array([st[k].ravel() for k in ('Nxx', 'Nyy', 'Nxy', 'Mxx', 'Myy', 'Mxy')])
            expN = F.dot(got)
            Ss = np.abs(F).dot(np.array(Sn))
            for k, key in enumerate(('Nxx', 'Nyy', 'Nxy', 'Mxx', 'Myy', 'Mxy')):
                if np.any(np.abs(gotN[k] - expN[k]) > RTOL * Ss[k] + 1e-300):
                    fails.append(fail('stress %s is not the laminate matrix times the strains reported for the same request (NLterms=%s)'
                                      % (key, nl), sig=None, **ctx))
                    break
        # permutation of the points
        if len(xs) > 1 and xs_in.ndim == 1:
            perm = np.argsort(np.sin(np.arange(len(xs)) * 7.3))
            u2, v2, w2, px2, py2 = p.uvw(c.copy(), xs=xs[perm].copy(), ys=ys[perm].copy())
            execs += 1
            if not (np.array_equal(w2, w[perm]) and np.array_equal(u2, u[perm]) and np.array_equal(px2, phix[perm])):
                fails.append(fail('field values depend on the ordering of the points', sig=None, **ctx))
        if len(fails) > 8:
            break
    # forms of the amplitude vector: a non-contiguous view (e.g. a column of a mode matrix, every second entry of a longer vector) and a
    # list must give what the contiguous array gives
    if case['pset'] in ('scatter7', 'single') and not fails:
        g = 1e-3 * np.array([seed_eps(seed, 500 + i) for i in range(ref.size)])
        mat = np.column_stack((0.3 * g, g, -2.0 * g))                 # C-ordered (size, 3): column 1 is strided
        forms = {'column of a matrix': mat[:, 1], 'every second entry': np.column_stack((g, 7.0 * g)).ravel()[::2], 'list': list(g)}
        kw = dict(xs=xs_in.copy(order='K'), ys=ys_in.copy(order='K'))
        base_u = [np.array(v) for v in p.uvw(g.copy(), **kw)]
        base_e = p.strain(g.copy(), NLterms=False, **kw) if case['model'] != 'plate_w' else None
        base_s = p.stress(g.copy(), NLterms=False, **kw) if case['model'] != 'plate_w' else None
        for fname, cform in forms.items():
            got_u = p.uvw(cform, **kw)
            execs += 1
            bad = any(not np.array_equal(np.asarray(a), b) for a, b in zip(got_u, base_u))
            if base_e is not None:
                ge, gs = p.strain(cform, NLterms=False, **kw), p.stress(cform, NLterms=False, **kw)
                execs += 2
                bad = bad or any(not np.array_equal(np.asarray(ge[k]), np.asarray(base_e[k])) for k in ('exx', 'eyy', 'gxy', 'kxx', 'kyy', 'kxy'))
                bad = bad or any(not np.array_equal(np.asarray(gs[k]), np.asarray(base_s[k])) for k in ('Nxx', 'Nyy', 'Nxy', 'Mxx', 'Myy', 'Mxy'))
            if bad:
                fails.append(fail('fields for an amplitude vector given as %s differ from those for the same values in a contiguous array' % fname,
                                  sig=None, case=case))
    # history edge on the same object: the switch force_orthotropic_laminate turned on and off again between field evaluations
    if cfg['model'] != 'plate_w' and case['pset'] in ('scatter7', 'edges'):
        c = 1e-3 * np.array([seed_eps(seed, 500 + i) for i in range(ref.size)])
        keysN, keysE = ('Nxx', 'Nyy', 'Nxy', 'Mxx', 'Myy', 'Mxy'), ('exx', 'eyy', 'gxy', 'kxx', 'kyy', 'kxy')

        def stress_and_strain():
            st = p.stress(c.copy(), xs=xs_in.copy(order='K'), ys=ys_in.copy(order='K'), NLterms=False)
            e = p.strain(c.copy(), xs=xs_in.copy(order='K'), ys=ys_in.copy(order='K'), NLterms=False)
            return np.array([st[k].ravel() for k in keysN]), np.array([np.asarray(e[k]).ravel() for k in keysE])
        Fo = F.copy()
        for (i, j) in ((0, 2), (1, 2), (0, 5), (1, 5), (3, 2), (4, 2), (3, 5), (4, 5)):
            Fo[i, j] = Fo[j, i] = 0.0
        for flag, Fexp in ((False, F), (True, Fo), (False, F), (True, Fo)):
            p.force_orthotropic_laminate = flag
            gN, gE = stress_and_strain()
            execs += 2
            if np.abs(gN - Fexp.dot(gE)).max() > 1e-10 * np.abs(Fexp).dot(np.abs(gE)).max():
                fails.append(fail('stress is not the laminate matrix (force_orthotropic_laminate=%s) times the strains after the switch was '
                                  'toggled on the same object' % flag, sig=None, case=case))
                break
        p.force_orthotropic_laminate = False
    return dict(fails=fails[:10], execs=execs, transitions=execs, nontrivial=1)


def check_threads(case):
    """complete product: this thread count x point counts 1..33, against thread count 1 (bit identical) and the reference."""
    seed = case['seed']
    cfg = dict(model=case['model'], a=2.0, b=1.0, r=3.0, lam='general', m=4, n=3, fbase='generic', seed=seed)
    p = pan.make_panel(cfg)
    ref = pan.make_ref(cfg)[0].base
    c = 1e-3 * np.array([seed_eps(seed, 700 + i) for i in range(ref.size)])
    fails = []
    execs = 0
    for npts in range(1, 34):
        xs = 2.0 * ((np.arange(npts) * 0.6180339887 + 0.05) % 1.0)
        ys = 1.0 * ((np.arange(npts) * 0.7548776662 + 0.31) % 1.0)
        p.out_num_cores = 1
        base = p.uvw(c.copy(), xs=xs.copy(), ys=ys.copy())
        base = [np.array(v) for v in base]
        p.out_num_cores = case['cores']
        got = p.uvw(c.copy(), xs=xs.copy(), ys=ys.copy())
        execs += 2
        for k, nm in enumerate(('u', 'v', 'w', 'phix', 'phiy')):
            if np.shape(got[k]) != (npts,) or not np.array_equal(got[k], base[k]):
                fails.append(fail('%s depends on the number of worker threads' % nm, sig=None, case=case, npts=npts))
                break
        rw = ref.uvw(c, xs, ys)[2]
        if np.abs(np.asarray(got[2]) - rw).max() > 1e-10 * np.abs(c).sum():
            fails.append(fail('w differs from the series for this (threads, points) pair', sig=None, case=case, npts=npts))
        if case['model'] != 'plate_w':
            p.out_num_cores = 1
            s1 = p.strain(c.copy(), xs=xs.copy(), ys=ys.copy(), NLterms=False)
            p.out_num_cores = case['cores']
            s2 = p.strain(c.copy(), xs=xs.copy(), ys=ys.copy(), NLterms=False)
            execs += 2
            for key in ('exx', 'eyy', 'gxy', 'kxx', 'kyy', 'kxy'):
                if np.shape(s2[key]) != (npts,) or not np.array_equal(s1[key], s2[key]):
                    fails.append(fail('strain %s depends on the number of worker threads' % key, sig=None, case=case, npts=npts))
                    break
        if len(fails) > 5:
            break
    return dict(fails=fails[:6], execs=execs, states=33, transitions=execs, nontrivial=33)


def check_comp(case):
    seed = case['seed']
    fails = []
    execs = 0
    if case['comp'].startswith('assembly'):
        from compmech.panel.assembly import PanelAssembly
        specs = ([(3, 3, 0.6, 'cross_sym', 'g1'), (4, 3, 0.4, 'general', 'g1')] if case['comp'] == 'assembly2' else
                 [(3, 3, 0.6, 'cross_sym', 'g1'), (2, 5, 0.5, 'angle', 'g2'), (4, 3, 0.4, 'general', 'g1')])       # group g1 is not contiguous in the panel list
        panels = []
        for (m, n, b, lam, grp) in specs:
            p = pan.make_panel(dict(model='plate', a=2.0, b=b, lam=lam, m=m, n=n, seed=seed, fbase='generic'))
            p.group = grp
            panels.append(p)
        assy = PanelAssembly(panels, [])
        size = assy.get_size()
        c = 1e-3 * np.array([seed_eps(seed, 900 + i) for i in range(size)])
        for p in panels:
            p.calc_k0(silent=True)
        for grp in sorted({s[4] for s in specs}):
            for cores in (1, 3, 4):
                assy.out_num_cores = cores
                res = assy.uvw(c.copy(), grp, gridx=4, gridy=3)
                st = assy.strain(c.copy(), grp, gridx=4, gridy=3, NLterms=False)
                ss = assy.stress(c.copy(), grp, gridx=4, gridy=3, NLterms=False)
                execs += 3
                members = [p for p in panels if p.group == grp]
                if len(res['w']) != len(members):
                    fails.append(fail('assembly group returns the wrong number of panels', sig=None, case=case, group=grp))
                    continue
                for k, p in enumerate(members):
                    i0 = sum(3 * q.m * q.n for q in panels[:panels.index(p)])
                    cp = c[i0:i0 + 3 * p.m * p.n]
                    ref = pan.rp.PanelRef(p.a, p.b, p.m, p.n, {f: getattr(p, f) for f in pan.FLAGS})
                    xs, ys = np.asarray(res['x'][k]).ravel(), np.asarray(res['y'][k]).ravel()
                    ru, rv, rw, _, _ = ref.uvw(cp, xs, ys)
                    sc = np.abs(cp).sum()
                    if np.abs(np.asarray(res['w'][k]).ravel() - rw).max() > 1e-11 * sc or np.abs(np.asarray(res['u'][k]).ravel() - ru).max() > 1e-11 * sc:
                        fails.append(fail("assembly field of a panel is not evaluated with that panel's own slice of the amplitude vector",
                                          sig=None, case=case, group=grp, panel=k))
                    re = ref.strain(cp, xs, ys, nl=False)
                    if np.abs(np.asarray(st['exx'][k]).ravel() - re[0]).max() > 1e-10 * sc * 10 or \
                            np.abs(np.asarray(st['kxy'][k]).ravel() - re[5]).max() > 1e-10 * sc * 100:
                        fails.append(fail("assembly strain of a panel is not evaluated with that panel's own slice", sig=None, case=case, panel=k))
                    Fp = np.asarray(p.F)
                    got6 = np.array([np.asarray(st[key][k]).ravel() for key in ('exx', 'eyy', 'gxy', 'kxx', 'kyy', 'kxy')])
                    gN = np.array([np.asarray(ss[key][k]).ravel() for key in ('Nxx', 'Nyy', 'Nxy', 'Mxx', 'Myy', 'Mxy')])
                    if np.abs(gN - Fp.dot(got6)).max() > 1e-10 * np.abs(Fp.dot(np.abs(got6))).max():
                        fails.append(fail("assembly stress of a panel is not that panel's laminate matrix times its strains", sig=None,
                                          case=case, panel=k))
    else:
        from compmech.stiffpanelbay import StiffPanelBay
        spb = StiffPanelBay()
        spb.a, spb.b, spb.m, spb.n = 2.0, 1.0, 4, 5
        spb.stack, spb.plyt, spb.laminaprop, spb.mu = [0., 90., 90., 0.], pan.PLYT, pan.M6, 1500.
        spb.add_panel(y1=0., y2=0.4)
        spb.add_panel(y1=0.4, y2=1.0)
        kw = dict(ys=0.4, mu=1500., bf=0.05, fstack=[0., 90.], fplyt=pan.PLYT, flaminaprop=pan.M6)
        regions = []
        if case['comp'] == 'bay_b2d':
            spb.add_bladestiff2d(mf=3, nf=4, **kw)
            spb.add_bladestiff2d(mf=2, nf=3, **dict(kw, ys=1.0))
            regions = [(0, 'flange'), (1, 'flange')]
        elif case['comp'] == 'bay_t2d':
            spb.add_tstiff2d(mf=3, nf=4, bb=0.1, bstack=[0., 90.], bplyt=pan.PLYT, blaminaprop=pan.M6, mb=2, nb=3, **kw)
            regions = [(0, 'base'), (0, 'flange')]
        elif case['comp'] == 'bay_t2d_b2d':
            # a T stiffener defined BEFORE a blade stiffener: the global vector holds all blade stiffeners first
            spb.add_tstiff2d(mf=3, nf=4, bb=0.1, bstack=[0., 90.], bplyt=pan.PLYT, blaminaprop=pan.M6, mb=2, nb=3, **kw)
            spb.add_bladestiff2d(mf=2, nf=3, **dict(kw, ys=1.0))
            regions = [(0, 'flange'), (1, 'base'), (1, 'flange')]
        elif case['comp'] == 'bay_b2d_t2d_b2d':
            spb.add_bladestiff2d(mf=3, nf=2, **dict(kw, ys=0.0))
            spb.add_tstiff2d(mf=3, nf=4, bb=0.1, bstack=[0., 90.], bplyt=pan.PLYT, blaminaprop=pan.M6, mb=2, nb=3, **kw)
            spb.add_bladestiff2d(mf=2, nf=3, **dict(kw, ys=1.0))
            regions = [(0, 'flange'), (1, 'flange'), (2, 'base'), (2, 'flange')]
        spb.calc_k0(silent=True)
        size = spb.get_size()
        c = 1e-3 * np.array([seed_eps(seed, 1100 + i) for i in range(size)])
        xs = np.array([0.1, 0.9, 1.7, 2.0, 0.0])
        ys = np.array([0.2, 0.4, 0.95, 1.0, 0.0])
        nskin = 3 * spb.m * spb.n
        ref = pan.rp.PanelRef(2.0, 1.0, spb.m, spb.n, {})
        for cores in (1, 2, 5):
            spb.out_num_cores = cores
            u, v, w, px, py = spb.uvw_skin(c.copy(), xs=xs.copy(), ys=ys.copy())
            execs += 1
            ru, rv, rw, rpx, rpy = ref.uvw(c[:nskin], xs, ys)
            sc = np.abs(c[:nskin]).sum()
            if np.abs(np.asarray(w).ravel() - rw).max() > 1e-11 * sc or np.abs(np.asarray(v).ravel() - rv).max() > 1e-11 * sc:
                fails.append(fail('bay skin field is not the skin series of the skin amplitudes', sig=None, case=case, cores=cores))
        off = nskin
        stiffs = spb.bladestiff2ds + spb.tstiff2ds
        for si, s in enumerate(stiffs):
            parts = ([('base', s.base)] if type(s).__name__ == 'TStiff2D' else []) + [('flange', s.flange)]
            for region, part in parts:
                nloc = 3 * part.m * part.n
                cp = c[off:off + nloc]
                off += nloc
                if (si, region) not in regions:
                    continue
                # 'si' above counts in the order of the global vector; the method takes the index in order of definition
                u, v, w, px, py = spb.uvw_stiffener(c.copy(), spb.stiffeners.index(s), region=region, gridx=4, gridy=3)
                execs += 1
                refp = pan.rp.PanelRef(part.a, part.b, part.m, part.n, {f: getattr(part, f) for f in pan.FLAGS})
                X, Y = np.meshgrid(np.linspace(0, spb.a, 4), np.linspace(0, part.b, 3))
                rw = refp.uvw(cp, X.ravel(), Y.ravel())[2]
                if np.abs(np.asarray(w).ravel() - rw).max() > 1e-11 * np.abs(cp).sum():
                    fails.append(fail("bay stiffener field is not evaluated with that stiffener region's own amplitudes", sig=None,
                                      case=case, stiffener=si, region=region))
    return dict(fails=fails[:8], execs=execs, transitions=execs, nontrivial=1)


def check_case(case):
    return dict(panel=check_panel, threads=check_threads, comp=check_comp)[case['kind']](case)


def summarize(results, tier, seed):
    return dict(thread_point_pairs=sum(33 for r in results if r['case']['kind'] == 'threads'), caps_hit=False)
