"""C14 - equivalent descriptions of one structure give identical matrices and eigenvalues.

Edges are description transformations between two real executions (differential oracle, full product over small alphabets):
  cone(alpha=0) <-> cylinder; cylinder(r=10^k) -> plate (rate 1/r); w-only plate <-> w-block of the plate;
  numeric kernels at the undeformed state <-> analytic kernels; x<->y exchange; similarity scaling (s, e, q).
"""
import itertools

import numpy as np
from scipy.linalg import eigh

from .. import pan
from ..core import fail

RULE = 'one case = one transformation edge x configuration letter (laminate, flag base, orders, loads); non-trivial = all'
ASSUMPTIONS = ['spectra compared through a dense symmetric-definite solver on the package matrices',
               'cone(0)=cylinder tolerance 1e-9 of max|entry| (41-section sums of sub-interval integrals), others 1e-11']
LAMS = ['general', 'cross_sym', 'cross_unsym', 'uni0']
FBS = ['SSSS', 'CCCC', 'CFFF', 'generic']
ORDS = [(3, 4), (5, 5), (9, 9)]
CC_ORD = (6, 7)
TRIPLES = [(-1.0, 0.0, 0.0), (-0.3, -0.7, 0.0), (-0.3, -0.7, 0.45)]


def cases(tier, seed):
    out = []
    for kind in ('cone0', 'bigr', 'wonly', 'numeric', 'exchange', 'similarity'):
        for lam, fb, (m, n) in itertools.product(LAMS, FBS, ORDS):
            if tier == 'quick' and (m, n) == (5, 5) and (lam not in ('general', 'cross_sym') or fb in ('CFFF',)):
                continue
            if (m, n) == (9, 9) and (kind != 'similarity' or lam != 'cross_sym' or fb != 'SSSS'):
                continue
            if kind in ('exchange', 'similarity'):
                if fb == 'generic' or (fb == 'CCCC' and (m, n) != (5, 5)):
                    continue          # spectra need K positive definite on a non-empty set of active amplitudes
                for ti in range(len(TRIPLES)):
                    out.append(dict(kind=kind, lam=lam, fbase=fb, m=m, n=n, triple=ti, seed=seed))
            else:
                out.append(dict(kind=kind, lam=lam, fbase=fb, m=m, n=n, seed=seed))
    return out


def mats(p, tri=(-1.0, -0.3, 0.2)):
    p.Nxx, p.Nyy, p.Nxy = tri
    return dict(k0=pan.dense(p.calc_k0(silent=True)), kG0=pan.dense(p.calc_kG0(silent=True)), kM=pan.dense(p.calc_kM(silent=True)))


def spectra(p, tri, nev=4):
    M = mats(p, tri)
    act = np.abs(M['kM']).sum(axis=0) != 0
    K, G, Mm = (M[k][np.ix_(act, act)] for k in ('k0', 'kG0', 'kM'))
    w2 = eigh(K, Mm, eigvals_only=True)[:nev]
    mu = eigh(-G, K, eigvals_only=True)
    lam = np.sort(1.0 / mu[mu > 1e-12 * np.abs(mu).max()])[:nev]
    return w2, lam


def check_case(case):
    try:
        return _check_case(case)
    except np.linalg.LinAlgError as e:
        return dict(fails=[fail('a description of the structure yields a mass/stiffness matrix that is not positive definite (eigen-solver failed)',
                                sig=None, case=case, error=repr(e)[:200])], nontrivial=1)


def _check_case(case):
    seed = case['seed']
    if case['fbase'] == 'CCCC' and case['kind'] in ('exchange', 'similarity'):
        case = dict(case, m=CC_ORD[0], n=CC_ORD[1])
    base = dict(a=0.6, b=0.4, lam=case['lam'], fbase=case['fbase'], m=case['m'], n=case['n'], seed=seed)
    fails = []
    kind = case['kind']
    if kind == 'cone0':
        A = mats(pan.make_panel(dict(base, model='kpanel', r=1.5, alphadeg=0.0)))
        B = mats(pan.make_panel(dict(base, model='cpanel', r=1.5)))
        for nm in A:
            sc = np.abs(B[nm]).max() + 1e-300
            if np.abs(A[nm] - B[nm]).max() > 1e-9 * sc:
                fails.append(fail('conical panel with zero semi-vertex angle differs from the cylindrical panel (%s)' % nm, sig=None, case=case,
                                  rel=float(np.abs(A[nm] - B[nm]).max() / sc)))
    elif kind == 'bigr':
        P = mats(pan.make_panel(dict(base, model='plate')))
        prev = None
        for k in range(4, 10):
            C = mats(pan.make_panel(dict(base, model='cpanel', r=10.0 ** k)))
            d = np.abs(C['k0'] - P['k0']).max() / np.abs(P['k0']).max()
            for nm in ('kG0', 'kM'):
                if np.abs(C[nm] - P[nm]).max() > 1e-12 * np.abs(P[nm]).max():
                    fails.append(fail('%s of a cylindrical panel depends on the radius / differs from the plate' % nm, sig=None, case=case, r=10.0 ** k))
            # u-u, u-v, v-v blocks do not involve 1/r
            inpl = np.ones(C['k0'].shape[0], dtype=bool)
            inpl[2::3] = False
            if np.abs(C['k0'][np.ix_(inpl, inpl)] - P['k0'][np.ix_(inpl, inpl)]).max() > 1e-12 * np.abs(P['k0']).max():
                fails.append(fail('in-plane block of the cylindrical k0 differs from the plate', sig=None, case=case, r=10.0 ** k))
            if prev is not None and prev > 1e-13 and not (d / prev < 0.2):
                fails.append(fail('cylinder -> plate difference does not decay at least like 1/r', sig=None, case=case, r=10.0 ** k, d=float(d), prev=float(prev)))
            prev = d
        if prev > 1e-6:
            fails.append(fail('cylindrical panel of very large radius does not tend to the plate', sig=None, case=case, diff=float(prev)))
    elif kind == 'wonly':
        P = pan.make_panel(dict(base, model='plate'))
        W = pan.make_panel(dict(base, model='plate_w'))
        for p in (P, W):
            p.beta, p.gamma, p.aeromu = 2.3, 0.0, 0.1
        A, B = mats(P), mats(W)
        # the same pair with the reference surface moved off the mid-plane (the bending block follows D + 2dB + d^2 A in both)
        Po = pan.make_panel(dict(base, model='plate', offset='+d'))
        Wo = pan.make_panel(dict(base, model='plate_w', offset='+d'))
        Ao, Bo = mats(Po), mats(Wo)
        for nm in Ao:
            A[nm + ' (offset)'], B[nm + ' (offset)'] = Ao[nm], Bo[nm]
        A['kA'], B['kA'] = pan.dense(P.calc_kA(silent=True)), pan.dense(W.calc_kA(silent=True))
        for nm in A:
            blk = A[nm][2::3, 2::3]
            sc = np.abs(blk).max() + 1e-300
            if blk.shape != B[nm].shape or np.abs(blk - B[nm]).max() > 1e-12 * sc:
                fails.append(fail('w-only plate model differs from the out-of-plane block of the full plate model (%s)' % nm, sig=None, case=case))
    elif kind == 'numeric':
        for model, ortho, pre in (('plate', 0, 0), ('cpanel', 0, 0), ('plate', 1, 0), ('cpanel', 1, 0), ('plate', 0, 1), ('cpanel', 0, 1)):
            p = pan.make_panel(dict(base, model=model, r=1.5))
            p.force_orthotropic_laminate = bool(ortho)
            if pre:          # constant pre-load: part of k0 on both routes, never of the state-based geometric matrix
                p.Nxx_cte, p.Nyy_cte, p.Nxy_cte = -1.2e3, 0.4e3, 0.3e3
            K = pan.dense(p.calc_k0(silent=True))
            nx, ny = case['m'] + 4, case['n'] + 4
            c0 = np.zeros(3 * case['m'] * case['n'])
            for lbl, kw in (('c=0', dict(c=c0)), ('Fnxny only', dict(Fnxny=np.array(p.F))), ('c=0,NLgeom', dict(c=c0, NLgeom=True))):
                Kn = pan.dense(p.calc_k0(silent=True, nx=nx, ny=ny, **kw))
                if np.abs(Kn - K).max() > 1e-10 * np.abs(K).max():
                    fails.append(fail('numerically integrated k0 at the undeformed state differs from the analytic one (%s, %s)' % (model + (', forced orthotropic' if ortho else '') + (', constant pre-load' if pre else ''), lbl),
                                      sig=None, case=case, rel=float(np.abs(Kn - K).max() / np.abs(K).max())))
            G0 = pan.dense(p.calc_kG0(c=c0, nx=nx, ny=ny, silent=True))
            if np.abs(G0).max() != 0:
                fails.append(fail('numerically integrated kG of the undeformed state is not zero (%s)' % model, sig=None, case=case))
        # unequal series orders with the number of integration points given for ONE direction only (the other one is
        # the panel's own setting, sufficient for its order): still the analytic matrix
        if (case['m'], case['n']) == (3, 4):
            for model, (m_, n_), kw in (('plate', (3, 9), dict(nx=5)), ('cpanel', (3, 9), dict(nx=5)),
                                        ('plate', (9, 3), dict(ny=5)), ('cpanel', (9, 3), dict(ny=5))):
                p = pan.make_panel(dict(base, model=model, r=1.5, m=m_, n=n_))
                p.nx, p.ny = m_ + 4, n_ + 4
                K = pan.dense(p.calc_k0(silent=True))
                Kn = pan.dense(p.calc_k0(silent=True, c=np.zeros(3 * m_ * n_), **kw))
                if np.abs(Kn - K).max() > 1e-10 * np.abs(K).max():
                    fails.append(fail('numerically integrated k0 at the undeformed state differs from the analytic one (%s, orders %s, only %s given)'
                                      % (model, (m_, n_), sorted(kw)[0]), sig=None, case=case, rel=float(np.abs(Kn - K).max() / np.abs(K).max())))
    elif kind == 'exchange':
        tri = TRIPLES[case['triple']]
        stack, mat, off = pan.laminate_of(base)
        from compmech.panel import Panel
        fl = pan.flags_of(base)
        p1 = Panel(a=0.6, b=0.4, stack=stack, plyt=pan.PLYT, laminaprop=mat, m=case['m'], n=case['n'], mu=1500., **fl)
        fl2 = {}
        for k, v in fl.items():
            d = {'u': 'v', 'v': 'u', 'w': 'w'}[k[0]]
            fl2[d + k[1:3] + ('y' if k[3] == 'x' else 'x')] = v
        # mirror image of the plate about the line x=y: ply angle theta -> 90 - theta
        p2 = Panel(a=0.4, b=0.6, stack=[90. - t for t in stack], plyt=pan.PLYT, laminaprop=mat, m=case['n'], n=case['m'], mu=1500., **fl2)
        w1, l1 = spectra(p1, tri)
        w2, l2 = spectra(p2, (tri[1], tri[0], tri[2]))
        if np.abs(w1 - w2).max() > 1e-6 * np.abs(w1).max():
            fails.append(fail('exchanging the roles of x and y changes the natural frequencies', sig=None, case=case, a=w1, b=w2))
        k = min(len(l1), len(l2))
        if k and np.abs(l1[:k] - l2[:k]).max() > 1e-6 * np.abs(l1[:k]).max():
            fails.append(fail('exchanging the roles of x and y changes the buckling multipliers', sig=None, case=case, a=l1, b=l2))
    elif kind == 'similarity':
        tri = TRIPLES[case['triple']]
        stack, mat, off = pan.laminate_of(base)
        from compmech.panel import Panel
        fl = pan.flags_of(base)
        p1 = Panel(a=0.6, b=0.4, stack=stack, plyt=pan.PLYT, laminaprop=mat, m=case['m'], n=case['n'], mu=1500., **fl)
        w1, l1 = spectra(p1, tri)
        for (s, e, q) in ((2.0, 0.5, 3.7), (0.5, 3.7, 2.0), (3.7, 2.0, 0.5), (0.1, 1.0, 1.0e-3), (1.0e3, 1.0e-6, 1.0e-12)):
            m2 = (mat[0] * e, mat[1] * e, mat[2], mat[3] * e, mat[4] * e, mat[5] * e)
            p2 = Panel(a=0.6 * s, b=0.4 * s, stack=stack, plyt=pan.PLYT * s, laminaprop=m2, m=case['m'], n=case['n'], mu=1500. * q, **fl)
            w2, l2 = spectra(p2, tri)
            relw = np.abs(w2 - w1 * (e / q) / s ** 2).max() / np.abs(w2).max()
            if relw > 1e-6:
                fails.append(fail('similarity scaling (s,e,q) does not scale the frequencies by sqrt(e/q)/s', sig=None, case=case, seq=[s, e, q], rel=float(relw)))
            k = min(len(l1), len(l2))
            if k and np.abs(l2[:k] - l1[:k] * e * s).max() > 1e-6 * np.abs(l2[:k]).max():
                fails.append(fail('similarity scaling (s,e,q) does not scale the buckling line loads by e*s', sig=None, case=case, seq=[s, e, q]))
        # a constant pre-load (part of k0) under changes of units, including units in which it is numerically tiny
        if case['triple'] == 0 and (case['m'], case['n']) != (9, 9):
            pre = -0.3 * float(l1[0]) if len(l1) else 0.0         # 30 per cent of the critical uniaxial line load of this panel
            pp1 = Panel(a=0.6, b=0.4, stack=stack, plyt=pan.PLYT, laminaprop=mat, m=case['m'], n=case['n'], mu=1500., **fl)
            pp1.Nxx_cte = pre * (tri[0] < 0)
            if pp1.Nxx_cte:
                wp1, _ = spectra(pp1, tri)
                for (s_, e_, q_) in ((1.0, 1.0e-9, 1.0e-9), (1.0e3, 1.0e-6, 1.0e-12), (2.0, 0.5, 3.7)):
                    m2_ = (mat[0] * e_, mat[1] * e_, mat[2], mat[3] * e_, mat[4] * e_, mat[5] * e_)
                    pp2 = Panel(a=0.6 * s_, b=0.4 * s_, stack=stack, plyt=pan.PLYT * s_, laminaprop=m2_, m=case['m'], n=case['n'], mu=1500. * q_, **fl)
                    pp2.Nxx_cte = pp1.Nxx_cte * e_ * s_
                    wp2, _ = spectra(pp2, tri)
                    relw = np.abs(wp2 - wp1 * (e_ / q_) / s_ ** 2).max() / np.abs(wp2).max()
                    if relw > 1e-6:
                        fails.append(fail('frequencies of a pre-loaded panel do not follow the similarity law under a change of units', sig=None, case=case,
                                          seq=[s_, e_, q_], preload_in_these_units=float(pp2.Nxx_cte), rel=float(relw)))
        # the same description reached by editing the entries of the user-supplied lists in place on ONE object (after an
        # evaluation) must give what a freshly defined panel with these values gives
        if case['triple'] == 0 and (case['m'], case['n']) != (9, 9):
            s_, e_, q_ = 2.0, 0.5, 3.7
            m2 = (mat[0] * e_, mat[1] * e_, mat[2], mat[3] * e_, mat[4] * e_, mat[5] * e_)
            pu = Panel(a=0.6, b=0.4, stack=list(stack), plyts=[pan.PLYT] * len(stack), laminaprops=[tuple(mat)] * len(stack),
                       m=case['m'], n=case['n'], mu=1500., **fl)
            spectra(pu, tri)
            pu.a, pu.b, pu.mu = 0.6 * s_, 0.4 * s_, 1500. * q_
            for i in range(len(stack)):
                pu.plyts[i] = pan.PLYT * s_
                pu.laminaprops[i] = m2
                pu.stack[i] = -stack[i]                 # mirrored angles as well (another equivalent description up to the sign of shear)
            pf = Panel(a=0.6 * s_, b=0.4 * s_, stack=[-t for t in stack], plyts=[pan.PLYT * s_] * len(stack), laminaprops=[m2] * len(stack),
                       m=case['m'], n=case['n'], mu=1500. * q_, **fl)
            Mu, Mf = mats(pu, tri), mats(pf, tri)
            for nm in Mu:
                if np.abs(Mu[nm] - Mf[nm]).max() > 1e-12 * (np.abs(Mf[nm]).max() + 1e-300):
                    fails.append(fail('%s of a panel whose ply lists were edited entry by entry differs from a freshly defined panel with the same values' % nm,
                                      sig=None, case=case, rel=float(np.abs(Mu[nm] - Mf[nm]).max() / (np.abs(Mf[nm]).max() + 1e-300))))
    return dict(fails=fails[:5], execs=2, transitions=1, nontrivial=1)
