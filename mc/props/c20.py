"""C20 - results depend on the model definition only, not on call history or thread count.

E2: explicit-state BFS over histories of public calls on real objects.  State = digest of the complete attribute
dictionary (recursing into nested panels / stiffeners / laminates; arrays and sparse matrices hashed by content;
eigen-solver outputs, which depend on ARPACK's random start vector, are rounded / excluded as output-only fields).
Transition = one public call with arguments from a fixed tiny menu.  Live objects are rebuilt by replaying the history.
On every transition: history independence (result == result of the same call on a fresh object, or - when the call
cannot be made first on a fresh object, which is itself a violation - on a warmed-up reference object), purity of
caller-supplied inputs, first-call success at depth 1, identical results for every thread-count letter.
"""
import hashlib
import itertools

import numpy as np
import scipy.sparse as sp

from .. import pan
from ..core import fail, seed_eps, digest

RULE = ('one case = (object kind, first call) or (object kind, definition change); inside it all call histories up to the depth bound are executed on fresh real objects (quick: every call first, followed by every call of a state-sensitive probe subset; thorough: all calls at every depth) '
        '(breadth-first, histories reaching an already seen complete-state digest are not extended); non-trivial transition = a call '
        'made in a state that differs from the freshly constructed object')
ASSUMPTIONS = ['eigenvalue results compared to 1e-8 relative (ARPACK start vector is random and not owned by the harness); eigenvectors are output-only fields excluded from the state digest',
               'OpenMP interleavings for a fixed thread count are not controlled (DESIGN section 6); thread COUNT letters are enumerated']


# ----------------------------------------------------------------------------------------------- digests
def _h(b):
    return hashlib.sha256(b).hexdigest()[:16]


def canon(o, depth=0, skip=()):
    if depth > 8:
        return 'deep'
    if o is None or isinstance(o, (bool, int, str)):
        return repr(o)
    if isinstance(o, float):
        return repr(o)
    if isinstance(o, (np.floating, np.integer)):
        return repr(o.item())
    if isinstance(o, np.ndarray):
        if o.dtype == object:
            return [canon(v, depth + 1) for v in o.ravel()]
        return 'nd%s:%s' % (o.shape, _h(np.ascontiguousarray(o).tobytes()))
    if sp.issparse(o):
        m = sp.csr_matrix(o)
        m.sum_duplicates()
        m.sort_indices()
        return 'sp%s:%s' % (m.shape, _h(m.data.tobytes() + m.indices.tobytes() + m.indptr.tobytes()))
    if isinstance(o, (list, tuple)):
        return [canon(v, depth + 1) for v in o]
    if isinstance(o, dict):
        return {str(k): canon(v, depth + 1) for k, v in sorted(o.items(), key=lambda kv: str(kv[0])) if k not in skip}
    if isinstance(o, memoryview) or type(o).__name__ == '_memoryviewslice':
        return canon(np.asarray(o), depth)
    if callable(o) and not hasattr(o, '__dict__'):
        return 'callable'
    d = getattr(o, '__dict__', None)
    if d is None and hasattr(o, '__slots__'):
        d = {k: getattr(o, k, None) for k in o.__slots__}
    if d is not None:
        out = {'__class__': type(o).__name__}
        for k, v in sorted(d.items()):
            if k in ('eigvecs', 'bay', 'analysis_back', 'laminates') or callable(v) and not hasattr(v, '__dict__'):
                continue
            if k == 'eigvals' and v is not None:
                out[k] = [float('%.6g' % abs(x)) for x in np.asarray(v).ravel()[:3]]
                continue
            if k in ('panel1', 'panel2') or (k == 'panels' and depth > 0):
                out[k] = 'ref'
                continue
            out[k] = canon(v, depth + 1)
        return out
    return repr(type(o))


def state_digest(obj):
    return digest(canon(obj))


# ----------------------------------------------------------------------------------------------- result comparison
def same(a, b, eig=False):
    """Deep comparison of two results; returns None if equal else a description."""
    if isinstance(a, Exception) or isinstance(b, Exception):
        if isinstance(a, Exception) and isinstance(b, Exception) and type(a) is type(b):
            return None
        return 'one raised: %r vs %r' % (a if isinstance(a, Exception) else type(a).__name__, b if isinstance(b, Exception) else type(b).__name__)
    if sp.issparse(a) or sp.issparse(b):
        a, b = pan.dense(a), pan.dense(b)
    if isinstance(a, (list, tuple)) and isinstance(b, (list, tuple)):
        if len(a) != len(b):
            return 'length %d vs %d' % (len(a), len(b))
        for i, (x, y) in enumerate(zip(a, b)):
            r = same(x, y, eig)
            if r:
                return '[%d] %s' % (i, r)
        return None
    if isinstance(a, dict) and isinstance(b, dict):
        if sorted(a) != sorted(b):
            return 'keys differ'
        for k in a:
            r = same(a[k], b[k], eig)
            if r:
                return '[%s] %s' % (k, r)
        return None
    if a is None or b is None:
        return None if a is b else 'None vs value'
    try:
        x, y = np.asarray(a), np.asarray(b)
    except Exception:
        return None if a == b else 'differ'
    if x.shape != y.shape:
        return 'shape %s vs %s' % (x.shape, y.shape)
    if x.dtype == object:
        return None
    if eig:
        sc = np.abs(y).max() if y.size else 0.0
        if y.size and np.abs(np.abs(x) - np.abs(y)).max() > 1e-8 * sc + 1e-300:
            return 'eigenvalues differ by %.3g relative' % (np.abs(np.abs(x) - np.abs(y)).max() / (sc + 1e-300))
        return None
    if not np.array_equal(x, y, equal_nan=True):
        d = np.abs(x - y).max() if x.size else 0.0
        return 'values differ (max abs %.3g, scale %.3g)' % (d, np.abs(y).max() if y.size else 0.0)
    return None


# ----------------------------------------------------------------------------------------------- object kinds
def _c_for(n, seed, scale=1e-4):
    return scale * np.array([seed_eps(seed, 300 + i) for i in range(n)])


def _pts(seed):
    xs = np.array([0.1, 0.37 + 0.01 * seed_eps(seed, 1), 0.9, 1.3, 1.77, 2.0, 0.0])
    ys = np.array([0.05, 0.5, 0.21, 0.99, 0.63 + 0.01 * seed_eps(seed, 2), 1.0, 0.0])
    return xs, ys


class Kind:
    name = ''

    def make(self, seed):
        raise NotImplementedError

    def ops(self, seed):
        """dict name -> callable(obj) -> result ; 'eig:' prefix marks eigen-solver ops"""
        raise NotImplementedError

    warmup = ()


class PanelKind(Kind):
    def __init__(self, model, ortho=False):
        self.model = model
        self.ortho = ortho
        self.name = 'Panel/' + model + ('/ortho' if ortho else '')
        self.warmup = ('k0',)

    def make(self, seed):
        cfg = dict(model=self.model, a=2.0, b=1.0, r=3.0, lam='general', m=4, n=5, seed=seed, fbase='SSSS')
        p = pan.make_panel(cfg)
        p.Nxx, p.Nyy, p.Nxy = -1.0e3, 0.3e3, 0.2e3
        p.beta, p.gamma, p.aeromu = 2.3, 0.7, 0.11
        p.add_force(0.37 * 2.0, 0.41, 10., -5., 30., cte=True)
        p.add_force(1.2, 0.77, 0., 2., -12., cte=False)
        p.num_eigvalues = 2
        p.nx = p.ny = 6
        if self.ortho:
            p.force_orthotropic_laminate = True
        return p

    def ops(self, seed):
        size = 3 * 4 * 5
        c = _c_for(size, seed)
        c[2::3] *= 3.0
        xs, ys = _pts(seed)
        # a laminate table owned by the caller (6 x 6 points, unbalanced laminate: the 16 / 26 terms are not zero)
        from ..ref import laminate as rl
        Ftab = np.ascontiguousarray(np.broadcast_to(rl.abd([30., -60., 17.3], [pan.PLYT] * 3, [pan.M6] * 3)['ABD'], (6, 6, 6, 6))).copy()
        Ftab *= (1.0 + 0.2 * np.cos(np.arange(36.0)).reshape(6, 6))[:, :, None, None]

        def pure(fn, *arrs):
            def run(p):
                copies = [a.copy() for a in arrs]
                r = fn(p, *copies)
                for a, b in zip(arrs, copies):
                    if not np.array_equal(a, b):
                        raise InputMutated()
                return r
            return run

        def field(name, cores, **kw):
            def run(p, c_, xs_, ys_):
                old = p.out_num_cores
                p.out_num_cores = cores
                try:
                    return getattr(p, name)(c_, xs=xs_, ys=ys_, **kw)
                finally:
                    p.out_num_cores = old
            return pure(run, c, xs, ys)
        ops = {
            'k0': lambda p: p.calc_k0(silent=True),
            'kG0': lambda p: p.calc_kG0(silent=True),
            'kM': lambda p: p.calc_kM(silent=True),
            'kA': lambda p: p.calc_kA(silent=True),
            'cA': lambda p: (p.calc_cA(0.11, silent=True), p.cA)[1],
            'kT': pure(lambda p, c_: p.calc_kT(c=c_, silent=True), c),
            'kG0c': pure(lambda p, c_: p.calc_kG0(c=c_, silent=True), c),
            'fint': pure(lambda p, c_: np.asarray(p.calc_fint(c_, silent=True)), c),
            'kT_table': pure(lambda p, c_, F_: p.calc_kT(c=c_, nx=6, ny=6, Fnxny=F_, silent=True), c, Ftab),
            'fint_table': pure(lambda p, c_, F_: np.asarray(p.calc_fint(c_, nx=6, ny=6, Fnxny=F_, silent=True)), c, Ftab),
            'fext': lambda p: p.calc_fext(silent=True),
            'fext.4': lambda p: p.calc_fext(inc=0.4, silent=True),
            'static': lambda p: [np.asarray(v) for v in p.static(silent=True)],
            'eig:lb_dense': lambda p: (p.lb(silent=True, sparse_solver=False), p.eigvals)[1],
            'eig:lb_sparse': lambda p: (p.lb(silent=True, sparse_solver=True), p.eigvals)[1],
            'eig:freq_dense': lambda p: (p.freq(silent=True, sparse_solver=False), p.eigvals[:2])[1],
            'strain': field('strain', 4),
            'strain_lin': field('strain', 4, NLterms=False),
            'stress': field('stress', 4),
        }
        def plot_panel(p, c_, **kw):
            import matplotlib
            matplotlib.use('Agg')
            import matplotlib.pyplot as plt
            try:
                p.plot(c_, gridx=6, gridy=5, save=False, num_levels=5, **kw)
            finally:
                plt.close('all')
            return None
        ops['uvw_grid'] = pure(lambda p, c_: p.uvw(c_, gridx=6, gridy=5), c)
        ops['plot'] = pure(lambda p, c_: plot_panel(p, c_), c)
        ops['plot_deform'] = pure(lambda p, c_: plot_panel(p, c_, deform_u=True, vec='Nxx'), c)
        for k in (1, 2, 3, 7, 16):
            ops['uvw@%d' % k] = field('uvw', k)
        for k in (1, 3, 16):
            ops['strain@%d' % k] = field('strain', k)
        return ops


class InputMutated(Exception):
    pass


class AssemblyKind(Kind):
    name = 'PanelAssembly/2plates-SSycte'
    warmup = ('k0',)

    def make(self, seed):
        from compmech.panel.assembly import PanelAssembly
        p1 = pan.make_panel(dict(model='plate', a=2.0, b=0.6, lam='cross_sym', m=3, n=3, seed=seed, fbase='SSSS'))
        p2 = pan.make_panel(dict(model='plate', a=2.0, b=0.4, lam='general', m=4, n=3, seed=seed, fbase='SSSS'))
        for p, g in ((p1, 'skin'), (p2, 'skin')):
            p.group = g
            p.Nxx = -1.0e3
            p.nx = p.ny = 6
            p.w2ty = p.w2ry = p.u2ty = p.v2ty = 1.0
        p2.w1ty = p2.w1ry = p2.u1ty = p2.v1ty = 1.0
        p1.add_force(1.0, 0.3, 0., 0., 25., cte=True)
        p2.add_force(0.5, 0.2, 3., 0., -5., cte=False)
        conn = [dict(p1=p1, p2=p2, func='SSycte', ycte1=p1.b, ycte2=0.)]
        return PanelAssembly([p1, p2], conn)

    def ops(self, seed):
        size = 3 * 3 * 3 + 3 * 4 * 3
        c = _c_for(size, seed)
        c[2::3] *= 3.0

        def pure(fn):
            def run(a):
                cc = c.copy()
                r = fn(a, cc)
                if not np.array_equal(cc, c):
                    raise InputMutated()
                return r
            return run

        def fld(name, cores, **kw):
            def run(a, c_):
                old = a.out_num_cores
                a.out_num_cores = cores
                try:
                    r = getattr(a, name)(c_, 'skin', gridx=5, gridy=4, **kw)
                finally:
                    a.out_num_cores = old
                return {k: [np.asarray(v) for v in vs] for k, vs in r.items()}
            return pure(run)
        ops = {
            'k0': lambda a: a.calc_k0(silent=True),
            'kG0': lambda a: a.calc_kG0(silent=True),
            'kM': lambda a: a.calc_kM(silent=True),
            'k0_conn': lambda a: a.get_k0_conn(),
            'k0_other_conn': lambda a: a.calc_k0(conn=[], silent=True),       # one evaluation with another connectivity handed over explicitly
            'k0_nofin': lambda a: a.calc_k0(silent=True, finalize=False),
            'kT_nofin': pure(lambda a, c_: a.calc_kT(c=c_, silent=True, finalize=False)),
            'kT': pure(lambda a, c_: a.calc_kT(c=c_, silent=True)),
            'fint': pure(lambda a, c_: np.asarray(a.calc_fint(c_, silent=True))),
            'fext': lambda a: a.calc_fext(silent=True),
            'fext.4': lambda a: a.calc_fext(inc=0.4, silent=True),
            'strain': fld('strain', 4),
            'stress': fld('stress', 4),
        }
        for k in (1, 3, 4, 16):
            ops['uvw@%d' % k] = fld('uvw', k)
        return ops


class BayKind(Kind):
    def __init__(self, stiff):
        self.stiff = stiff
        self.name = 'StiffPanelBay/' + stiff
        self.warmup = ('k0',)

    def make(self, seed):
        from compmech.stiffpanelbay import StiffPanelBay
        spb = StiffPanelBay()
        spb.a, spb.b, spb.m, spb.n = 2.0, 1.0, 5, 5
        spb.stack, spb.plyt, spb.laminaprop, spb.mu = [0., 90., 90., 0.], pan.PLYT, pan.M6, 1500.
        spb.beta, spb.gamma, spb.aeromu = 2.3, 0.0, 0.11
        spb.num_eigvalues = 3
        spb.add_panel(y1=0., y2=0.4, Nxx=-1.0e3)
        spb.add_panel(y1=0.4, y2=1.0, Nxx=-1.0e3)
        kw = dict(ys=0.4, mu=1500.)
        if self.stiff == 'b1d':
            spb.add_bladestiff1d(bf=0.05, fstack=[0., 90.], fplyt=pan.PLYT, flaminaprop=pan.M6, **kw)
        elif self.stiff == 'b1d_base':
            spb.add_bladestiff1d(bf=0.05, fstack=[0., 90.], fplyt=pan.PLYT, flaminaprop=pan.M6,
                                 bb=0.1, bstack=[0., 90.], bplyt=pan.PLYT, blaminaprop=pan.M6, **kw)
        elif self.stiff == 'b2d':
            spb.add_bladestiff2d(bf=0.05, fstack=[0., 90.], fplyt=pan.PLYT, flaminaprop=pan.M6, mf=3, nf=3, **kw)
        elif self.stiff == 't2d':
            spb.add_tstiff2d(bf=0.05, fstack=[0., 90.], fplyt=pan.PLYT, flaminaprop=pan.M6, mf=3, nf=3,
                             bb=0.1, bstack=[0., 90.], bplyt=pan.PLYT, blaminaprop=pan.M6, mb=3, nb=3, **kw)
        spb.add_force_skin = None
        return spb

    def ops(self, seed):
        xs, ys = _pts(seed)

        def sized(fn):
            def run(b):
                if getattr(b, 'model', None) is None:
                    b._rebuild_probe = None
                n = _bay_size(b)
                c = _c_for(n, seed)
                cc = c.copy()
                r = fn(b, cc)
                if not np.array_equal(cc, c):
                    raise InputMutated()
                return r
            return run
        ops = {
            'k0': lambda b: b.calc_k0(silent=True),
            'kG0': lambda b: b.calc_kG0(silent=True),
            'kM': lambda b: b.calc_kM(silent=True),
            'kA': lambda b: b.calc_kA(silent=True),
            'cA': lambda b: b.calc_cA(silent=True),
            'fext': lambda b: b.calc_fext(silent=True),
            'uvw_skin@2': sized(lambda b, c: _with_cores(b, 2, lambda: b.uvw_skin(c, xs=xs.copy(), ys=ys.copy()))),
            'uvw_skin@16': sized(lambda b, c: _with_cores(b, 16, lambda: b.uvw_skin(c, xs=xs.copy(), ys=ys.copy()))),
        }
        def plot_op(b, c, **kw):
            import matplotlib
            matplotlib.use('Agg')
            import matplotlib.pyplot as plt
            try:
                b.plot_skin(c, gridx=6, gridy=5, save=False, silent=True, num_levels=5, **kw)
            finally:
                plt.close('all')
            return None
        ops['uvw_skin_grid'] = sized(lambda b, c: b.uvw_skin(c, gridx=6, gridy=5))
        ops['plot_skin'] = sized(lambda b, c: plot_op(b, c))
        ops['plot_skin_deform'] = sized(lambda b, c: plot_op(b, c, deform_u=True, deform_u_sf=50.))
        if self.stiff in ('b2d', 't2d'):
            ops['uvw_flange'] = sized(lambda b, c: b.uvw_stiffener(c, 0, region='flange', gridx=4, gridy=3))
        if self.stiff == 't2d':
            ops['uvw_base'] = sized(lambda b, c: b.uvw_stiffener(c, 0, region='base', gridx=4, gridy=3))
        return ops


class ConeCylKind(Kind):
    def __init__(self, alpha, model='clpt_donnell_bc1', variant=''):
        self.alpha, self.model, self.variant = alpha, model, variant
        self.name = 'ConeCyl/%s/alpha%g%s' % (model, alpha, ('/' + variant) if variant else '')
        self.warmup = ('k0',)
        self._n = None

    def make(self, seed):
        from ..ref import shell as rs
        cfg = dict(model=self.model, alphadeg=self.alpha, m1=2, m2=1, n2=2, s=20, nx=16, nt=16, Fc=2.0e3, P=0.0 if 'fsdt' in self.model else 1.0e3)
        if self.variant == 'presc':          # prescribed end rotation and shortening: the load factor scales prescribed amplitudes
            cfg.update(pdT=True, thetaTdeg=0.2, pdC=True, uTM=1.0e-4)
        cc = rs.shell_of(cfg)
        if self.variant == 'ortho':
            cc.force_orthotropic_laminate = True
        if 'fsdt' not in self.model:           # point forces are not implemented for the first-order shear models (NotImplementedError)
            cc.add_force(0.1, 30.0, 0., 0., -20., increment=True)
            cc.add_force(0.3, -100.0, 1., 2., 5., increment=False)
        cc.num_eigvalues = 2
        cc.analysis.initialInc = 0.5
        return cc

    def nfree(self, seed):
        if self._n is None:
            self._n = (self.make(seed).calc_k0(silent=True).shape[0], self.make(seed).get_size())
        return self._n

    def ops(self, seed):
        n, nfull = self.nfree(seed)
        c = _c_for(n, seed, scale=2e-4)
        cfull = _c_for(nfull, seed + 17, scale=2e-4)
        xs = np.array([0.05, 0.2, 0.39])
        ts = np.array([0.3, -2.0, 1.1])

        def pure(fn, vec=None):
            v0 = c if vec is None else vec

            def run(cc):
                c2 = v0.copy()
                r = fn(cc, c2)
                if not np.array_equal(c2, v0):
                    raise InputMutated()
                return r
            return run

        def cores(k, fn, vec=None):
            def run(cc, c2):
                old = (cc.ni_num_cores, cc.out_num_cores)
                cc.ni_num_cores = cc.out_num_cores = k
                try:
                    return fn(cc, c2)
                finally:
                    cc.ni_num_cores, cc.out_num_cores = old
            return pure(run, vec)

        def lb(cc):
            cc.lb()
            return np.asarray(cc.eigvals)[:1]       # the small basis has a single finite buckling multiplier
        ops = {
            'k0': lambda cc: cc.calc_k0(silent=True),
            'fext': lambda cc: cc.calc_fext(silent=True),
            'fext.4': lambda cc: cc.calc_fext(inc=0.4, silent=True),
            'static': lambda cc: [np.asarray(v) for v in cc.static(silent=True)],
            'eig:lb': lb,
            'fint@1': cores(1, lambda cc, c2: np.asarray(cc.calc_fint(c2, silent=True))),
            'fint@3': cores(3, lambda cc, c2: np.asarray(cc.calc_fint(c2, silent=True))),
            'kT@1': cores(1, lambda cc, c2: cc.calc_kT(c2, silent=True)),
            'kT@4': cores(4, lambda cc, c2: cc.calc_kT(c2, silent=True)),
            'uvw@1': cores(1, lambda cc, c2: [np.asarray(v) for v in cc.uvw(c2, xs=xs.copy(), ts=ts.copy())]),
            'uvw@5': cores(5, lambda cc, c2: [np.asarray(v) for v in cc.uvw(c2, xs=xs.copy(), ts=ts.copy())]),
            'strain': cores(2, lambda cc, c2: np.asarray(cc.strain(c2, xs=xs.copy(), ts=ts.copy()))),
            # complete vectors (prescribed amplitudes included) at a load factor other than 1
            'uvw_full.5': cores(1, lambda cc, c2: [np.asarray(v) for v in cc.uvw(c2, xs=xs.copy(), ts=ts.copy(), inc=0.5)], vec=cfull),
            'strain_full.3': cores(1, lambda cc, c2: np.asarray(cc.strain(c2, xs=xs.copy(), ts=ts.copy(), inc=0.3)), vec=cfull),
            'fint.5': cores(1, lambda cc, c2: np.asarray(cc.calc_fint(c2, inc=0.5, silent=True))),
            'fullc.5': pure(lambda cc, c2: np.asarray(cc.calc_full_c(c2, inc=0.5)), vec=cfull),
        }
        return ops


class AnalysisKind(Kind):
    """The Newton-Raphson driver object itself (every Panel / ConeCyl owns one and re-uses it for each static analysis), driven by the
    scripted environment of C09: each operation is one complete analysis whose per-step outcomes are dictated by a fixed script, so
    its result may not depend on what was run before on the same object."""
    name = 'Analysis/NR-driver'
    warmup = ()

    def __init__(self, initialInc=0.3):
        self.initialInc = initialInc
        if initialInc != 0.3:
            self.name = 'Analysis/NR-driver/initialInc%g' % initialInc

    def _cfg(self):
        from . import c09
        return dict(c09.DEFAULT, line_search=False, maxNumIter=6, initialInc=self.initialInc)

    def make(self, seed):
        from compmech.analysis import Analysis
        an = Analysis()
        for k, v in self._cfg().items():
            if k in an.__slots__:
                setattr(an, k, v)
        return an

    def ops(self, seed):
        from . import c09
        cfg = self._cfg()

        def run(prefix, linear=False):
            def op(an):
                env = c09.Env(dict(cfg, linear=linear), prefix, 'mode')
                an.calc_fext, an.calc_k0, an.calc_fint, an.calc_kT = env.calc_fext, env.calc_k0, env.calc_fint, env.calc_kT
                env.analysis = an
                with np.errstate(all='ignore'):
                    an.static(NLgeom=True, silent=True)
                return [[float(v) for v in an.increments], [np.array(c) for c in an.cs][-1:]]
            return op
        return {'nl:fast': run([]), 'nl:late_first': run([1]), 'nl:diverge_first': run([2]), 'nl:slow_first': run([3]), 'nl:never_first': run([4]),
                'nl:fast_then_diverge': run([0, 2]), 'nl:linear_problem': run([], linear=True)}


def _with_cores(obj, k, fn):
    old = obj.out_num_cores
    obj.out_num_cores = k
    try:
        return fn()
    finally:
        obj.out_num_cores = old


def _bay_size(b):
    n = 3 * b.m * b.n
    for s in b.bladestiff2ds:
        n += 3 * s.flange.m * s.flange.n
    for s in b.tstiff2ds:
        n += 3 * s.base.m * s.base.n + 3 * s.flange.m * s.flange.n
    return n


# definition changes between two evaluations on the SAME object: (label, setter(obj), cfg-level description of the same change for a fresh object)
def _panel_redefs():
    return {
        'offset': lambda p: setattr(p, 'offset', 0.3e-3),
        'angles': lambda p: setattr(p, 'stack', [t + 15. for t in p.stack]),
        'angle_inplace': lambda p: p.stack.__setitem__(0, p.stack[0] + 15.),
        'a': lambda p: setattr(p, 'a', 2.6),
        'flag': lambda p: setattr(p, 'w1rx', 0.),
        'loads': lambda p: (setattr(p, 'Nxx', -3.0e3), setattr(p, 'Nxy', 0.9e3)),
        'beta': lambda p: setattr(p, 'beta', 5.1),
        'plyt': lambda p: setattr(p, 'plyt', 0.2e-3),
        'laminaprop': lambda p: setattr(p, 'laminaprop', (71.0e9, 71.0e9, 0.33)),
        'stack_longer': lambda p: setattr(p, 'stack', list(p.stack) + [45.]),
        'force': lambda p: p.add_force(0.5, 0.5, 0., 0., 7., cte=True),
        'orders': lambda p: (setattr(p, 'm', 5), setattr(p, 'n', 4)),
    }


def _bay_redefs():
    def add_stiff(b):
        b.add_bladestiff2d(ys=1.0, mu=1500., bf=0.04, fstack=[0., 90.], fplyt=pan.PLYT, flaminaprop=pan.M6, mf=3, nf=3)
    return {
        'mu': lambda b: setattr(b.panels[0], 'mu', 2300.),
        'panel_load': lambda b: (setattr(b.panels[0], 'Nxx', -3.0e3), setattr(b.panels[1], 'Nxy', 0.4e3)),
        'panel_plyt': lambda b: setattr(b.panels[1], 'plyt', 2 * pan.PLYT),
        'panel_stack_inplace': lambda b: b.panels[0].stack.__setitem__(0, 30.),
        'stiff_mu': lambda b: setattr(b.stiffeners[0], 'mu', 2100.),
        'flange_plyt': lambda b: setattr(b.stiffeners[0].flange, 'plyt', 2 * pan.PLYT),
        'flange_load': lambda b: setattr(b.stiffeners[0].flange, 'Nxx', -500.),
        'beta': lambda b: setattr(b, 'beta', 5.1),
        'aeromu': lambda b: setattr(b, 'aeromu', 0.5),
        'skin_force': lambda b: b.forces_skin.append([0.3, 0.7, 0., 0., 4.]),
        'add_stiffener': add_stiff,
    }


def _assembly_redefs():
    return {
        'p0_a': lambda a: setattr(a.panels[0], 'a', 2.4),
        'p1_stack': lambda a: setattr(a.panels[1], 'stack', [45., -45., 0.]),
        'p1_stack_inplace': lambda a: a.panels[1].stack.__setitem__(0, 55.),
        'p0_load': lambda a: setattr(a.panels[0], 'Nxx', -2.5e3),
        'p1_mu': lambda a: setattr(a.panels[1], 'mu', 900.),
        'p0_flag': lambda a: setattr(a.panels[0], 'w1rx', 0.),
        'p1_force': lambda a: a.panels[1].add_force(0.9, 0.1, 0., 2., 1., cte=True),
        'p0_offset': lambda a: setattr(a.panels[0], 'offset', 0.2e-3),
    }


def _conecyl_redefs():
    return {
        'stack': lambda c: (setattr(c, 'stack', [0., 90., 90., 0.]), setattr(c, 'plyts', []), setattr(c, 'laminaprops', [])),
        'P': lambda c: setattr(c, 'P', 3.0e3),
        'Fc': lambda c: setattr(c, 'Fc', 5.0e3),
        'force': lambda c: c.add_force(0.2, 10., 0., 0., 9.),
        'edge': lambda c: setattr(c, 'kphixBot', 4.0e3),
        'n2': lambda c: setattr(c, 'n2', 3),
        'ortho_toggle': lambda c: setattr(c, 'force_orthotropic_laminate', not c.force_orthotropic_laminate),
    }


REDEFS = {'Panel/plate': _panel_redefs, 'Panel/cpanel': _panel_redefs, 'StiffPanelBay/b2d': _bay_redefs, 'StiffPanelBay/t2d': _bay_redefs,
          'PanelAssembly/2plates-SSycte': _assembly_redefs, 'ConeCyl/clpt_donnell_bc1/alpha0': _conecyl_redefs,
          'ConeCyl/clpt_donnell_bc1/alpha0/ortho': lambda: {'ortho_toggle': _conecyl_redefs()['ortho_toggle']}}
REDEF_OPS = {'Panel/plate': ['k0', 'kG0', 'kM', 'kA', 'fext', 'static', 'kT', 'fint', 'uvw@2', 'stress'],
             'StiffPanelBay/b2d': ['k0', 'kG0', 'kM', 'kA', 'cA', 'fext'], 'StiffPanelBay/t2d': ['k0', 'kG0', 'kM', 'fext'],
             'PanelAssembly/2plates-SSycte': ['k0', 'kG0', 'kM', 'k0_conn', 'kT', 'fint', 'fext'],
             'Panel/cpanel': ['k0', 'kM', 'kT', 'static'],
             'ConeCyl/clpt_donnell_bc1/alpha0': ['k0', 'fext', 'static', 'fint@1', 'kT@1', 'eig:lb'],
             'ConeCyl/clpt_donnell_bc1/alpha0/ortho': ['k0', 'static', 'eig:lb', 'fint@1']}
SIG_STALE_CC = 'C20:ConeCyl-cached-linear-matrices-survive-a-definition-change'
SIG_STALE_PLY = 'C20:Panel-derived-ply-lists-survive-a-change-of-plyt-laminaprop-stack'


KINDS = {k.name: k for k in [PanelKind('plate'), PanelKind('cpanel'), PanelKind('plate', ortho=True), AssemblyKind(), BayKind('b1d'), BayKind('b1d_base'),
                             BayKind('b2d'), BayKind('t2d'), ConeCylKind(0.0), ConeCylKind(20.0),
                             ConeCylKind(0.0, 'fsdt_donnell_bc1'), ConeCylKind(20.0, 'clpt_donnell_bc1', 'presc'),
                             ConeCylKind(0.0, 'clpt_donnell_bc1', 'ortho'), AnalysisKind(), AnalysisKind(1.0)]}


# ----------------------------------------------------------------------------------------------- exploration
# quick tier: every call is tried first, but only these state-sensitive calls are tried as the following call
PROBE = {'kT_table', 'fint_table', 'k0_other_conn', 'nl:fast', 'nl:late_first', 'nl:diverge_first', 'nl:fast_then_diverge', 'eig:lb', 'fint.5', 'uvw_full.5', 'k0', 'kM', 'kA', 'kT', 'fint', 'fext', 'static', 'uvw', 'stress', 'uvw_skin_grid', 'uvw_skin', 'uvw_flange', 'k0_conn', 'kG0c', 'cA',
         'uvw_grid', 'eig:freq_dense'}


def call(op, obj):
    from scipy.sparse.linalg import ArpackError
    for attempt in range(3):            # a break-down of ARPACK (start vector not reachable through the package) is retried
        try:
            import warnings
            with warnings.catch_warnings():
                warnings.simplefilter('ignore')
                return op(obj)
        except InputMutated as e:
            return e
        except ArpackError as e:
            last = e
            continue
        except Exception as e:
            return e
    return last


def check_redef(case):
    """evaluate op, change the definition on the same object, evaluate op again: must equal a fresh object with the changed definition"""
    kind = KINDS[case['kind']]
    seed = case['seed']
    ops = kind.ops(seed)
    redefs = REDEFS[case['kind']]()
    fails = []
    execs = 0
    for op in REDEF_OPS[case['kind']]:
        a = kind.make(seed)
        r0 = call(ops[op], a)
        redefs[case['redef']](a)
        if case['redef'] in ('orders', 'n2', 'stack_longer') and op not in ('k0', 'kG0', 'kM', 'kA', 'fext', 'static'):
            continue        # ops with an amplitude vector of the old size are not comparable
        r1 = call(ops[op], a)
        b = kind.make(seed)
        redefs[case['redef']](b)
        rf = call(ops[op], b)
        execs += 3
        if isinstance(rf, Exception):
            continue
        d = same(r1, rf, eig=op.startswith('eig:'))
        if d:
            sig = None
            unchanged = same(r1, r0) is None
            if case['kind'].startswith('ConeCyl') and unchanged and op in ('k0', 'static', 'fint@1', 'kT@1', 'fext'):
                sig = SIG_STALE_CC
            if case['kind'].startswith('Panel') and case['redef'] in ('plyt', 'laminaprop', 'stack_longer'):
                sig = SIG_STALE_PLY
            fails.append(fail('%s: %s after changing "%s" on the same object differs from a freshly defined object with that definition%s'
                              % (kind.name, op, case['redef'], ' (result unchanged: stale cached data)' if unchanged else ''), sig=sig,
                              diff=d, error=repr(r1)[:200] if isinstance(r1, Exception) else None))
    return dict(fails=fails, execs=execs, states=len(REDEF_OPS[case['kind']]), transitions=execs, nontrivial=1)


def cases(tier, seed):
    depth = 2 if tier == 'quick' else 3
    out = []
    for kname, mk in REDEFS.items():
        for r in mk():
            out.append(dict(kind=kname, redef=r, seed=seed))
    for name, kind in KINDS.items():
        for op in kind.ops(seed):
            out.append(dict(kind=name, first=op, depth=depth, probe_only=(tier == 'quick'), seed=seed))
    return out


def check_case(case):
    if 'redef' in case:
        return check_redef(case)
    kind = KINDS[case['kind']]
    seed = case['seed']
    ops = kind.ops(seed)
    names = list(ops)
    fails, seen_what = [], set()

    def add(what, sig=None, **det):
        key = (what, sig)
        if key not in seen_what:
            seen_what.add(key)
            fails.append(fail(what, sig=sig, **det))
    # reference results: each op on a fresh object; if it raises there, on a warmed-up object
    fresh, ref = {}, {}
    fresh_digest = state_digest(kind.make(seed))
    for nm in names:
        r = call(ops[nm], kind.make(seed))
        fresh[nm] = r
        if isinstance(r, Exception):
            o = kind.make(seed)
            for w in kind.warmup:
                call(ops[w], o)
            ref[nm] = call(ops[nm], o)
        else:
            ref[nm] = r
    probe = [n for n in names if n.split('@')[0] in PROBE or n in PROBE]
    first = case['first']
    if isinstance(fresh[first], InputMutated):
        add('%s: %s modifies an input supplied by the caller' % (kind.name, first), sig='C20:%s:%s:mutates-input' % (kind.name, first))
    elif isinstance(fresh[first], Exception):
        add('%s: %s cannot be requested first on a freshly defined object (%s)' % (kind.name, first, type(fresh[first]).__name__),
            sig='C20:%s:%s:first-call' % (kind.name, first), error=repr(fresh[first])[:300])
    # determinism of the reference itself (same call on two fresh objects)
    r2 = call(ops[first], kind.make(seed))
    d = same(r2, fresh[first], eig=first.startswith('eig:'))
    if d:
        add('%s: %s gives different results on two freshly defined identical objects' % (kind.name, first),
            sig='C20:%s:%s:nondeterministic' % (kind.name, first), diff=d)
    # BFS over histories starting with `first`
    frontier = [[first]]
    visited = {fresh_digest}
    states = trans = nontrivial = execs = 0
    for depth in range(1, case['depth'] + 1):
        nxt = []
        for hist in frontier:
            obj = kind.make(seed)
            results = []
            for nm in hist:
                results.append(call(ops[nm], obj))
                execs += 1
            trans += 1
            nm, res = hist[-1], results[-1]
            if len(hist) > 1:
                nontrivial += 1
                want = ref[nm]
                if isinstance(res, InputMutated):
                    add('%s: %s modifies an input supplied by the caller' % (kind.name, nm),
                        sig='C20:%s:%s:mutates-input' % (kind.name, nm), history=hist)
                elif isinstance(want, Exception):
                    pass        # cannot be evaluated even on a warmed-up object: reported by its own first-call case
                else:
                    d = same(res, want, eig=nm.startswith('eig:'))
                    if d:
                        add('%s: result of %s depends on the call history' % (kind.name, nm),
                            sig='C20:%s:%s-after-%s' % (kind.name, nm, hist[-2]), history=hist, diff=d,
                            error=repr(res)[:200] if isinstance(res, Exception) else None)
            dg = state_digest(obj)
            if dg in visited:
                continue
            visited.add(dg)
            states += 1
            if depth < case['depth']:
                for nm2 in (probe if case.get('probe_only') else names):
                    nxt.append(hist + [nm2])
        frontier = nxt
    return dict(fails=fails, execs=execs, states=states, transitions=trans, nontrivial=nontrivial)


def summarize(results, tier, seed):
    return dict(depth_bound_completed=2 if tier == 'quick' else 3, kinds=list(KINDS), caps_hit=False,
                ops_per_kind={k: len(v.ops(seed)) for k, v in KINDS.items()})
