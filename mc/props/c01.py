"""C01 - laminate ABD/ABDE = through-thickness integral of rotated ply stiffness.

Enumerates every stack over an 8-letter angle alphabet up to a length, and for each the full product of
thickness pattern x material pattern x offset letter x argument form.  Oracle: mc/ref/laminate.py (tensor rotation).
Edges (differential, package vs package): offset shift law, mirror-stack B=0, ply-order independence of A,
theta -> -theta, theta -> theta+90.
"""
import itertools

import numpy as np

from ..core import fail, seed_eps
from ..ref import laminate as rl

RULE = ('one case = one stacking sequence over the angle alphabet; inside it the full product thickness{uniform,per-ply} x '
        'material{6-tuple,3-tuple,9-tuple,per-ply mix} x offset{0,+d,-d,generic} x argument form{plyt/laminaprop, plyts/laminaprops}; '
        'non-trivial = the laminate has at least one non-zero coupling (B) or shear-coupling (x16/x26) entry in the reference')
ASSUMPTIONS = ['tolerance 1e-12 relative to the magnitude of the summands (Qmax*h*zmax^k)']

M6 = (142.5e9, 8.7e9, 0.28, 5.1e9, 4.6e9, 3.3e9)
M6B = (38.0e9, 9.2e9, 0.26, 3.5e9, 3.2e9, 2.7e9)
M3 = (71.0e9, 71.0e9, 0.33)
M9 = (130.0e9, 9.0e9, 0.31, 4.8e9, 4.1e9, 3.0e9, 11.0e9, 0.02, 0.4)
# balanced woven fabric: E1 == E2 exactly but orthotropic (independent shear moduli); 6- and 9-entry forms
MW6 = (70.0e9, 70.0e9, 0.05, 5.0e9, 4.0e9, 3.0e9)
MW9 = (70.0e9, 70.0e9, 0.05, 5.0e9, 4.0e9, 3.0e9, 9.0e9, 0.3, 0.3)
T0 = 0.125e-3
RTOL = 1e-12


def angles(seed):
    return [0., 90., 45., -45., 30., -60., 17.3 + seed_eps(seed, 1), -71.9 + seed_eps(seed, 2)]


def cases(tier, seed):
    A = angles(seed)
    maxlen = 4 if tier == 'thorough' else 3
    out = []
    for n in range(1, maxlen + 1):
        for st in itertools.product(range(len(A)), repeat=n):
            out.append(dict(stack=[A[i] for i in st], seed=seed))
    return out


def thickness(pat, n):
    return [T0] * n if pat == 'uni' else [0.1e-3 * (1 + 0.37 * k) for k in range(n)]


def materials(pat, n):
    if pat == 'mix':
        return [(M6, M6B, M3)[k % 3] for k in range(n)]
    if pat == 'mixw':
        return [(MW6, M6, MW9)[k % 3] for k in range(n)]
    return [dict(m6=M6, m3=M3, m9=M9, mw6=MW6, mw9=MW9)[pat]] * n


def offsets(seed):
    return [('0', 0.0), ('+d', 0.4e-3), ('-d', -0.4e-3), ('gen', 0.137e-3 * (1 + 0.3 * seed_eps(seed, 3)))]


def build(stack, tpat, mpat, off, form):
    from compmech.composite.laminate import read_stack
    n = len(stack)
    ts, ms = thickness(tpat, n), materials(mpat, n)
    if form == 'uniform':
        return read_stack(list(stack), plyt=ts[0], laminaprop=ms[0], offset=off)
    return read_stack(list(stack), plyts=list(ts), laminaprops=list(ms), offset=off)


def cmp(lam, ref, sc, fails, ctx):
    sA, sB, sD = sc
    S6 = np.block([[np.full((3, 3), sA), np.full((3, 3), sB)], [np.full((3, 3), sB), np.full((3, 3), sD)]])
    S8 = np.zeros((8, 8)); S8[:6, :6] = S6; S8[6:, 6:] = sA
    for nm, S in (('A', sA), ('B', sB), ('D', sD), ('E', sA), ('ABD', S6), ('ABDE', S8)):
        got = np.asarray(getattr(lam, nm), dtype=float)
        if got.shape != ref[nm].shape or np.any(np.abs(got - ref[nm]) > RTOL * S + 1e-300):
            fails.append(fail('laminate %s differs from the through-thickness integral' % nm, sig=None,
                              got=got, expected=ref[nm], **ctx))
            return False
    return True


def check_case(case):
    stack, seed = case['stack'], case['seed']
    n = len(stack)
    fails = []
    states = trans = nontriv = 0
    lams = {}
    for tpat in ('uni', 'var'):
        for mpat in ('m6', 'm3', 'm9', 'mix', 'mw6', 'mw9', 'mixw'):
            forms = ['perply'] + (['uniform'] if (tpat == 'uni' and mpat not in ('mix', 'mixw')) else [])
            for oname, off in offsets(seed):
                ts, ms = thickness(tpat, n), materials(mpat, n)
                ref = rl.abd(stack, ts, ms, off)
                sc = rl.scales(stack, ts, ms, off)
                for form in forms:
                    lam = build(stack, tpat, mpat, off, form)
                    states += 1
                    ctx = dict(tpat=tpat, mpat=mpat, offset=off, form=form)
                    cmp(lam, ref, sc, fails, ctx)
                    ABD = np.asarray(lam.ABD)
                    if np.abs(ABD - ABD.T).max() > 0:
                        fails.append(fail('ABD not exactly symmetric', **ctx))
                    # positive definiteness via congruence scaling
                    dsc = np.sqrt(np.abs(np.diag(ABD)))
                    w = np.linalg.eigvalsh(ABD / np.outer(dsc, dsc))
                    if w.min() <= 1e-9:
                        fails.append(fail('ABD not positive definite', min_scaled_eig=float(w.min()), **ctx))
                    if abs(lam.t - sum(ts)) > 1e-15:
                        fails.append(fail('laminate thickness wrong', got=lam.t, **ctx))
                    lams[(tpat, mpat, oname, form)] = lam
                    # call-sequence edges on the same object: recomputing is idempotent, and moving the reference surface of an
                    # existing laminate object gives the same matrices as building it with that offset
                    if oname == 'gen':
                        before = np.array(lam.ABDE)
                        lam.calc_constitutive_matrix()
                        trans += 1
                        if not np.array_equal(np.asarray(lam.ABDE), before):
                            fails.append(fail('recomputing the constitutive matrix of the same laminate object changes it', **ctx))
                        l0 = lams.get((tpat, mpat, '0', form))
                        if l0 is not None:
                            l0.offset = off
                            l0.calc_constitutive_matrix()
                            trans += 1
                            if not np.array_equal(np.asarray(l0.ABDE), before):
                                fails.append(fail('changing the offset of an existing laminate object and recomputing differs from building it with that offset', **ctx))
                            l0.offset = 0.0
                            l0.calc_constitutive_matrix()
                    if np.abs(ref['B']).max() > 1e-9 * sc[1] or abs(ref['A'][0, 2]) > 1e-9 * sc[0]:
                        nontriv += 1
                if len(fails) > 6:
                    return dict(fails=fails[:6], states=states, transitions=trans)
            # ---- offset edges (package vs package)
            for form in forms:
                l0 = lams[(tpat, mpat, '0', form)]
                sc = rl.scales(stack, thickness(tpat, n), materials(mpat, n), 0.4e-3)
                for oname, off in offsets(seed)[1:]:
                    l1 = lams[(tpat, mpat, oname, form)]
                    trans += 1
                    dB = np.asarray(l1.B) - np.asarray(l0.B) - off * np.asarray(l0.A)
                    dD = np.asarray(l1.D) - np.asarray(l0.D) - 2 * off * np.asarray(l0.B) - off ** 2 * np.asarray(l0.A)
                    dA = np.asarray(l1.A) - np.asarray(l0.A)
                    if np.abs(dA).max() > RTOL * sc[0] or np.abs(dB).max() > 10 * RTOL * sc[1] or np.abs(dD).max() > 10 * RTOL * sc[2]:
                        fails.append(fail('offset law violated: B(d)!=B+dA or D(d)!=D+2dB+d^2A', tpat=tpat, mpat=mpat,
                                          offset=off, form=form, dB=float(np.abs(dB).max()), dD=float(np.abs(dD).max())))
            # uniform vs per-ply form
            if 'uniform' in forms:
                for oname, off in offsets(seed):
                    trans += 1
                    a, b = lams[(tpat, mpat, oname, 'uniform')], lams[(tpat, mpat, oname, 'perply')]
                    if not np.array_equal(np.asarray(a.ABDE), np.asarray(b.ABDE)):
                        fails.append(fail('uniform and per-ply argument forms disagree', tpat=tpat, mpat=mpat, offset=off))
            # ---- edges that change the stack
            ts, ms = thickness(tpat, n), materials(mpat, n)
            from compmech.composite.laminate import read_stack
            base = lams[(tpat, mpat, '0', 'perply')]
            # the stack handed over as a numpy array of a narrow type (integer-valued angles): same laminate as the list of floats
            if mpat == 'm6' and all(float(t) == int(t) and abs(t) < 128 for t in stack):
                for dt in (np.int8, np.int16, np.int64, np.float32, np.float64):
                    la = read_stack(np.array(stack, dtype=dt), plyts=list(ts), laminaprops=list(ms), offset=0.0)
                    trans += 1
                    gA, gB = np.asarray(la.ABDE, dtype=float), np.asarray(base.ABDE, dtype=float)
                    if not np.all(np.isfinite(gA)) or np.abs(gA - gB).max() > 1e-13 * np.abs(gB).max():
                        fails.append(fail('stack given as a numpy array of a narrow type gives other matrices than the same angles as Python floats', tpat=tpat,
                                          mpat=mpat, dtype=np.dtype(dt).name, rel=float(np.nanmax(np.abs(gA - gB)) / np.abs(gB).max())))
            sc = rl.scales(stack, ts, ms, 0.0)
            # mirror stack -> B = 0
            sym = read_stack(list(stack) + list(stack)[::-1], plyts=ts + ts[::-1], laminaprops=ms + ms[::-1])
            trans += 1
            if np.abs(np.asarray(sym.B)).max() > RTOL * 4 * sc[1]:
                fails.append(fail('mid-plane symmetric stack has B != 0', tpat=tpat, mpat=mpat,
                                  Bmax=float(np.abs(np.asarray(sym.B)).max())))
            # ply order: rotate order -> A unchanged
            if n > 1:
                rot = read_stack(list(stack)[1:] + list(stack)[:1], plyts=ts[1:] + ts[:1], laminaprops=ms[1:] + ms[:1])
                trans += 1
                if np.abs(np.asarray(rot.A) - np.asarray(base.A)).max() > RTOL * sc[0] or \
                        np.abs(np.asarray(rot.E) - np.asarray(base.E)).max() > RTOL * sc[0]:
                    fails.append(fail('A (or E) depends on ply order', tpat=tpat, mpat=mpat))
            # theta -> -theta
            neg = read_stack([-t for t in stack], plyts=ts, laminaprops=ms)
            trans += 1
            sgn6 = np.ones((6, 6));
            for i in (2, 5):
                sgn6[i, :] *= -1; sgn6[:, i] *= -1
            S6 = np.block([[np.full((3, 3), sc[0]), np.full((3, 3), sc[1])], [np.full((3, 3), sc[1]), np.full((3, 3), sc[2])]])
            if np.any(np.abs(np.asarray(neg.ABD) - sgn6 * np.asarray(base.ABD)) > RTOL * S6) or \
                    np.any(np.abs(np.asarray(neg.E) - np.array([[1, -1], [-1, 1]]) * np.asarray(base.E)) > RTOL * sc[0]):
                fails.append(fail('mirroring every angle does not flip exactly the x16/x26/E45 entries', tpat=tpat, mpat=mpat))
            # theta -> theta + 90
            p90 = read_stack([t + 90. for t in stack], plyts=ts, laminaprops=ms)
            trans += 1
            perm = [1, 0, 2, 4, 3, 5]
            exp = sgn6 * np.asarray(base.ABD)[np.ix_(perm, perm)]
            expE = np.array([[1, -1], [-1, 1]]) * np.asarray(base.E)[::-1, ::-1]
            if np.any(np.abs(np.asarray(p90.ABD) - exp) > 4 * RTOL * S6) or np.any(np.abs(np.asarray(p90.E) - expE) > 4 * RTOL * sc[0]):
                fails.append(fail('rotating every ply by 90 deg does not permute/sign-flip the entries as tensor rotation prescribes',
                                  tpat=tpat, mpat=mpat))
    return dict(fails=fails[:6], states=states, transitions=trans, execs=states + trans, nontrivial=nontriv)
