"""C05 - buckling solver returns true eigenpairs, smallest positive load factor first.

Full product (no sampling) of constructed symmetric pairs with known multipliers:
  size x spectrum letter (K) x KG letter x basis letter x null-row pattern x number of requested values x solver switch
plus the package's own (k0, kG0) of a small lattice of panels through compmech.analysis.lb and Panel.lb.
With a common eigenbasis the exact multipliers are d_i/g_i.
"""
import itertools

import numpy as np
from scipy.sparse import csr_matrix

from .. import pan
from ..core import fail, seed_eps

RULE = ('one case = one element of the product (size, K spectrum, KG letter, basis, null pattern, requested number, solver) or one panel '
        'configuration; non-trivial = pair with at least two distinct positive multipliers')
ASSUMPTIONS = ['ARPACK start vector is random: eigenpairs are judged through residuals and through the exactly known multipliers',
               'more eigenvalues may be requested than the problem has: as many as the solver path can deliver must come back (and be true pairs)']


def make_pair(n, spec, kgl, basis, nullpat, seed):
    e = lambda k: seed_eps(seed, 2000 + k, 0.05)
    if spec == 'separated':
        d = 10.0 + 7.0 * np.arange(n) * (1 + 0.01 * np.arange(n))
    elif spec == 'repeated':
        d = 10.0 + 7.0 * np.arange(n)
        d[1] = d[0]
    elif spec == 'cluster':
        d = 10.0 + 7.0 * np.arange(n)
        d[1] = d[0] * (1 + 1e-3)
        d[2] = d[0] * (1 + 2e-3)
    else:                                   # six decades
        d = 10.0 ** np.linspace(0, 6, n)
    d = d * (1 + e(1))
    if kgl == 'negdef':                      # every multiplier positive; reference load sub-critical (lambda_min > 1)
        g = d / (1.5 + 0.9 * np.arange(n) ** 1.1)
    elif kgl == 'mixed':
        g = d / (1.5 + 0.9 * np.arange(n) ** 1.1)
        g[1::3] *= -1.0
    else:                                    # rank deficient: geometric stiffness only on one third of the amplitudes
        g = np.zeros(n)
        g[::3] = d[::3] / (1.5 + 0.9 * np.arange(len(d[::3])) ** 1.1)
    if basis == 'diag':
        Q = np.eye(n)
    elif basis == 'householder':
        v = np.cos(1.0 + np.arange(n) * 1.7)
        v /= np.linalg.norm(v)
        Q = np.eye(n) - 2 * np.outer(v, v)
    elif basis == 'rotations':
        Q = np.eye(n)
        for k in range(0, n - 1, 2):
            t = 0.3 + 0.2 * k
            Q[k:k + 2, k:k + 2] = [[np.cos(t), -np.sin(t)], [np.sin(t), np.cos(t)]]
    else:
        A = np.array([[np.sin(1.0 + 3.1 * i + 1.7 * j + e(2)) for j in range(n)] for i in range(n)])
        Q = np.linalg.qr(A)[0]
    K = Q.dot(np.diag(d)).dot(Q.T)
    KG = -Q.dot(np.diag(g)).dot(Q.T)
    K, KG = 0.5 * (K + K.T), 0.5 * (KG + KG.T)
    lam = np.array([d[i] / g[i] for i in range(n) if g[i] != 0])
    # embed with null rows/columns
    if nullpat == 'none':
        idx = np.arange(n)
        N = n
    elif nullpat == 'first':
        idx = np.arange(n) + 1; N = n + 1
    elif nullpat == 'last':
        idx = np.arange(n); N = n + 1
    elif nullpat == 'third':
        idx = np.array([i + i // 2 for i in range(n)]); N = idx[-1] + 2
    else:
        idx = 3 * np.arange(n); N = 3 * n
    Kb = np.zeros((N, N)); KGb = np.zeros((N, N))
    Kb[np.ix_(idx, idx)] = K
    KGb[np.ix_(idx, idx)] = KG
    return Kb, KGb, idx, lam


def make_chain(n, variant, nullpat):
    """Spring-chain pairs: every interior column of K sums to exactly zero although the column carries stiffness.
    T = tridiag(-1, 2, -1) has eigenvalues t_k = 2 - 2 cos(k pi / (n + 1))."""
    T = 2.0 * np.eye(n) - np.eye(n, k=1) - np.eye(n, k=-1)
    t = 2.0 - 2.0 * np.cos(np.arange(1, n + 1) * np.pi / (n + 1))
    sc = 2.0 ** np.ceil(np.log2(1.5 / t[0]))          # power of two: cancellation in the column sums stays exact
    if variant == 'T_I':
        K, KG, lam = sc * T, -np.eye(n), sc * t
    elif variant == 'T2_T':
        K, KG, lam = sc * T.dot(T), -T, sc * t
    else:                                              # geometric matrix with cancelling columns too, of mixed sign
        dg = np.where(np.arange(n) % 3 == 1, -1.0, 1.0) / (1.0 + 0.37 * np.arange(n))
        K = sc * T.dot(T)
        KG = -(T.dot(np.diag(dg)).dot(T))
        KG = 0.5 * (KG + KG.T)
        lam = sc / dg                                  # with y = T x: (sc I - lambda D) y = 0
    if nullpat == 'none':
        idx = np.arange(n); N = n
    elif nullpat == 'third':
        idx = np.array([i + i // 2 for i in range(n)]); N = idx[-1] + 2
    else:
        idx = 3 * np.arange(n); N = 3 * n
    Kb = np.zeros((N, N)); KGb = np.zeros((N, N))
    Kb[np.ix_(idx, idx)] = K
    KGb[np.ix_(idx, idx)] = KG
    return Kb, KGb, idx, lam


def cases(tier, seed):
    out = []
    sizes = [5, 6, 7, 12, 30, 60] + ([120, 400] if tier == 'thorough' else [])
    for n, spec, kgl, basis, nullpat, num, sparse in itertools.product(
            sizes, ['separated', 'repeated', 'cluster', 'decades'], ['negdef', 'mixed', 'rankdef'],
            ['diag', 'householder', 'rotations', 'generic'], ['none', 'first', 'last', 'third', 'two_thirds'], [1, 2, 5, 25], [1, 0]):
        nfinite = n if kgl != 'rankdef' else len(range(0, n, 3))
        if kgl == 'rankdef' and num > min(nfinite, n - 2):      # only finite multipliers can be requested
            continue
        if tier == 'quick':
            if basis in ('householder', 'rotations') and (nullpat not in ('none', 'third') or spec != 'separated'):
                continue
            if n in (6, 7, 60) and (spec != 'separated' or nullpat not in ('none', 'two_thirds')):
                continue
            if nullpat in ('first', 'last') and spec != 'separated':
                continue
        out.append(dict(kind='pair', n=n, spec=spec, kg=kgl, basis=basis, null=nullpat, num=num, sparse=sparse, seed=seed))
    for n, variant, nullpat, num, sparse in itertools.product(sizes, ['T_I', 'T2_T', 'T2_TsT'], ['none', 'third', 'two_thirds'], [1, 2, 5, 25], [1, 0]):
        if num > n - 2 or (variant == 'T2_TsT' and num > n // 2):
            continue
        out.append(dict(kind='pair', chain=variant, n=n, null=nullpat, num=num, sparse=sparse, seed=seed, kg='mixed' if variant == 'T2_TsT' else 'negdef'))
    for model, fb, (m, n), num, sparse, load in itertools.product(['plate', 'cpanel'], ['SSSS', 'CCCC', 'CFFF'], [(8, 7), (7, 9)], [1, 3, 5], [1, 0],
                                                                  ['biaxial', 'shear', 'comp_tens']):
        if tier == 'quick' and load != 'biaxial' and (fb == 'CCCC' or (m, n) == (7, 9)):
            continue
        out.append(dict(kind='panel', model=model, fbase=fb, m=m, n=n, num=num, sparse=sparse, load=load, seed=seed))
        if load == 'biaxial' and (m, n) == (8, 7):
            # the same Panel object analysed first with other edge restraints (amplitudes active there are null afterwards)
            out.append(dict(kind='panel', model=model, fbase=fb, m=m, n=n, num=num, sparse=sparse, load=load, reuse=1, seed=seed))
    for model, alpha, num, comb in itertools.product(['clpt_donnell_bc1', 'clpt_donnell_bc3', 'fsdt_donnell_bc1'], [0., 25.], [1, 4], [0, 1, 2, 3]):
        out.append(dict(kind='shell', model=model, alpha=alpha, num=num, comb=comb, seed=seed))
    return out


class NoAnswer(Exception):
    pass


def call_lb(f, *a, **kw):
    """ARPACK draws its start vector from a generator whose state is private to the Fortran library (not reachable through lb);
    a break-down of the Arnoldi iteration is therefore retried; a solver that still gives no answer returns nothing the property
    speaks about: counted, and bounded by the vacuity guard in summarize()."""
    from scipy.sparse.linalg import ArpackError
    for attempt in range(3):
        try:
            return f(*a, **kw)
        except ArpackError:
            continue
    raise NoAnswer()


def summarize(results, tier, seed):
    na = sum(r.get('no_answer', 0) for r in results if isinstance(r, dict))
    out = dict(solver_gave_no_answer=na, cases=len(results))
    if na > 0.02 * len(results):
        out['fails'] = [fail('vacuity guard: the iterative solver gave no answer in more than 2% of the cases; the check cannot decide',
                             sig=None, no_answer=na, cases=len(results))]
    return out


def judge(K, KG, vals, vecs, idx_active, fails, ctx, exact=None, ordered=False, num=None, rtol=1e-6):
    vals = np.asarray(vals)
    if np.iscomplexobj(vals):
        if np.abs(vals.imag).max() > 1e-9 * np.abs(vals).max():
            fails.append(fail('complex load multipliers for a symmetric pair', sig=None, **ctx))
        vals = vals.real
    vecs = np.asarray(vecs)
    nK = np.abs(K).max()
    k = min(len(vals), vecs.shape[1])
    if num is not None and len(vals) < min(num, len(idx_active) - 2) and not ctx.get('dense'):
        fails.append(fail('fewer load multipliers returned than requested', sig=None, got=len(vals), **ctx))
    null = np.ones(K.shape[0], dtype=bool)
    null[idx_active] = False
    for i in range(k):
        v = vecs[:, i].real if np.iscomplexobj(vecs) else vecs[:, i]
        nv = np.linalg.norm(v)
        if nv == 0:
            fails.append(fail('a returned buckling mode is identically zero', sig=None, index=i, **ctx))
            break
        r = K.dot(v) + vals[i] * KG.dot(v)
        if np.linalg.norm(r) > 1e-6 * (nK + abs(vals[i]) * np.abs(KG).max()) * nv:
            fails.append(fail('returned pair does not satisfy (K + lambda KG) v = 0', sig=None, index=i, lam=float(vals[i]),
                              residual=float(np.linalg.norm(r) / ((nK + abs(vals[i]) * np.abs(KG).max()) * nv)), **ctx))
            break
        if np.any(v[null] != 0):
            fails.append(fail('buckling mode is not zero on amplitudes that carry no stiffness', sig=None, index=i, **ctx))
            break
    if ordered and exact is not None and len(vals):
        pos = np.sort(exact[exact > 0])
        kk = min(len(vals), len(pos), num if num is not None else len(vals))
        if np.any(np.diff(vals[:kk]) < -1e-8 * np.abs(vals[:kk]).max()):
            fails.append(fail('load multipliers not in ascending order', sig=None, vals=vals[:kk], **ctx))
        elif np.abs(vals[:kk] - pos[:kk]).max() > rtol * np.abs(pos[:kk]).max():
            fails.append(fail('returned multipliers are not the smallest positive ones', sig=None, got=vals[:kk], expected=pos[:kk], **ctx))


def check_pair(case):
    from compmech.analysis import lb
    if case.get('chain'):
        Kd, KGd, idx, lam = make_chain(case['n'], case['chain'], case['null'])
    else:
        Kd, KGd, idx, lam = make_pair(case['n'], case['spec'], case['kg'], case['basis'], case['null'], case['seed'])
    K, KG = csr_matrix(Kd), csr_matrix(KGd)
    Kc, KGc = K.copy(), KG.copy()
    fails = []
    ctx = dict(case=case, dense=not case['sparse'])
    try:
        vals, vecs = call_lb(lb, K, KG, silent=not (case['n'] == 12 and case.get('spec') == 'separated'), sparse_solver=bool(case['sparse']),
                             num_eigvalues=case['num'])
    except NoAnswer:
        return dict(fails=[], nontrivial=0, no_answer=1, execs=3, transitions=3)
    except Exception as e:
        return dict(fails=[fail('lb raised', sig=None, case=case, error=repr(e)[:300])], nontrivial=1)
    if (abs(K - Kc)).max() != 0 or (abs(KG - KGc)).max() != 0:
        fails.append(fail('lb modified the matrices passed by the caller', sig=None, case=case))
    # sub-critical and destabilising: every positive multiplier exceeds 1; with a geometric matrix of mixed sign the order is
    # demanded as long as no more values are requested than there are positive multipliers
    ordered = case['kg'] in ('negdef', 'rankdef') or case['num'] <= int((lam > 0).sum())
    rtol = 1e-6
    if case.get('chain'):
        # spring chains are ill conditioned: cond(T) = t_n / t_1 ~ (2 (n + 1) / pi)^2, squared for the T^2 variants
        cond = (4.0 / (np.pi / (case['n'] + 1)) ** 2) ** (1 if case['chain'] == 'T_I' else 2)
        rtol = max(1e-6, 50 * np.finfo(float).eps * cond)
    judge(Kd, KGd, vals, vecs, idx, fails, ctx, exact=lam, ordered=ordered, num=case['num'], rtol=rtol)
    execs = 1
    # scale edge: KG -> s KG  =>  lambda -> lambda / s
    if not fails and ordered and case['kg'] != 'mixed':
        # scaling down keeps the reference load sub-critical; 1e-6: a reference load far below the critical one (multipliers ~1e6..1e8)
        for s in (0.4, 1.0e-6):
            if s < 1e-3 and (case.get('chain') or case.get('spec') == 'decades'):
                continue          # ill-conditioned K: the fixed shift of the sparse path limits the attainable accuracy of huge multipliers
            try:
                vals2, vecs2 = call_lb(lb, K, csr_matrix(s * KGd), silent=True, sparse_solver=bool(case['sparse']), num_eigvalues=case['num'])
            except NoAnswer:
                continue
            execs += 1
            kk = min(len(vals), len(vals2), case['num'])
            if not np.all(np.isfinite(np.real(vals2[:kk]))) or \
                    np.abs(np.real(vals2[:kk]) * s - np.real(vals[:kk])).max() > max(rtol, 1e-5 if s < 1e-3 else 0) * np.abs(vals[:kk]).max():
                fails.append(fail('scaling the reference load by s does not divide the multipliers by s', sig=None, case=case, s=s,
                                  got=np.real(vals2[:kk]), expected=np.real(vals[:kk]) / s))
                break
    return dict(fails=fails[:4], execs=execs, transitions=execs, nontrivial=int(len(set(np.round(lam[lam > 0], 6))) > 1))


def check_panel(case):
    from compmech.analysis import lb
    from scipy.linalg import eigh
    cfg = dict(model=case['model'], a=0.6, b=0.4, r=1.5, lam='cross_sym', m=case['m'], n=case['n'], fbase=case['fbase'], seed=case['seed'])
    fails = []
    p = pan.make_panel(cfg)
    if case.get('reuse'):
        p = pan.make_panel(dict(cfg, fbase='FFFF' if case['fbase'] != 'CFFF' else 'SSSS'))
        p.u1tx = p.v1tx = p.w1tx = p.w1rx = 0.          # keep the first problem restrained (positive definite)
        p.Nxx, p.Nyy, p.Nxy = -1.0, -0.3, 0.
        p.num_eigvalues = case['num']
        p.lb(silent=True, sparse_solver=bool(case['sparse']))
        p.beta, p.gamma = 2.3, 0.0           # an aerodynamic matrix left on the object by an earlier flutter step
        p.calc_kA(silent=True)
        pan.retarget(p, cfg)
    p.Nxx, p.Nyy, p.Nxy = dict(biaxial=(-1.0, -0.3, 0.), shear=(0., 0., -1.0), comp_tens=(-1.0, 0.6, 0.2))[case.get('load', 'biaxial')]
    p.num_eigvalues = case['num']
    K, KG = p.calc_k0(silent=True), p.calc_kG0(silent=True)
    Kd, KGd = pan.dense(K), pan.dense(KG)
    act = np.where(np.abs(Kd).sum(axis=0) != 0)[0]
    w = eigh(-KGd[np.ix_(act, act)], Kd[np.ix_(act, act)], eigvals_only=True)      # mu = 1/lambda
    exact = 1.0 / w[np.abs(w) > 1e-14 * np.abs(w).max()]
    ctx = dict(case=case, dense=not case['sparse'])
    try:
        vals, vecs = call_lb(lb, K, KG, silent=True, sparse_solver=bool(case['sparse']), num_eigvalues=case['num'])
        judge(Kd, KGd, vals, vecs, act, fails, dict(ctx, api='analysis.lb'), exact=exact, ordered=True, num=case['num'])
        call_lb(p.lb, silent=True, sparse_solver=bool(case['sparse']))
        judge(Kd, KGd, p.eigvals, p.eigvecs, act, fails, dict(ctx, api='Panel.lb'), exact=exact, ordered=True, num=case['num'])
        kk = min(len(vals), len(p.eigvals), case['num'], int((exact > 0).sum()))     # only finite positive multipliers are compared
        if kk and np.abs(np.real(vals[:kk]) - np.real(p.eigvals[:kk])).max() > 1e-6 * np.abs(vals[:kk]).max():
            fails.append(fail('Panel.lb and compmech.analysis.lb disagree on the same matrices', sig=None, case=case))
    except NoAnswer:
        return dict(fails=fails[:4], execs=6, transitions=6, nontrivial=0, no_answer=1)
    except Exception as e:
        fails.append(fail('buckling analysis raised', sig=None, case=case, error=repr(e)[:300]))
    return dict(fails=fails[:4], execs=2, transitions=2, nontrivial=1)


def check_shell(case):
    """ConeCyl.lb: eigenpairs of (k0 [+ constant part], kG0 of the varied load) on the rows/columns beyond the prescribed amplitudes"""
    from scipy.linalg import eigh
    from ..ref import shell as rs
    fails = []
    cfg = dict(model=case['model'], alphadeg=case['alpha'], m1=3, m2=3, n2=4, s=40, Fc=1.0e3 if case['comb'] != 3 else 4.0e3,
               P=-2.0e3 if case['comb'] == 2 else 0.0, T=20.0 if case['comb'] in (1, 3) else 0.0)
    cc = rs.shell_of(cfg)
    cc.num_eigvalues = case['num']
    try:
        call_lb(cc.lb, combined_load_case=case['comb'] or None)
    except NoAnswer:
        return dict(fails=[], execs=3, transitions=3, nontrivial=0, no_answer=1)
    except Exception as e:
        return dict(fails=[fail('ConeCyl.lb raised', sig=None, case=case, error=repr(e)[:300])], nontrivial=1)
    pos = 3
    K0 = cc.k0.toarray()
    if case['comb'] == 0:
        M, A = K0, cc.kG0.toarray()
    elif case['comb'] == 1:
        M, A = K0 + cc.kG0_T.toarray(), cc.kG0_Fc.toarray()
    elif case['comb'] == 2:
        M, A = K0 + cc.kG0_P.toarray(), cc.kG0_Fc.toarray()
    else:                     # documented case 3: critical torsion load for a fixed axial load
        M, A = K0 + cc.kG0_Fc.toarray(), cc.kG0_T.toarray()
    Md, Ad = M[pos:, pos:], A[pos:, pos:]
    act = np.where(np.abs(Md).sum(axis=0) != 0)[0]
    mu = eigh(-Ad[np.ix_(act, act)], Md[np.ix_(act, act)], eigvals_only=True)
    exact = 1.0 / mu[np.abs(mu) > 1e-13 * np.abs(mu).max()]
    vecs = np.asarray(cc.eigvecs)
    if vecs.shape[0] != K0.shape[0] or np.abs(vecs[:pos]).max() != 0:
        fails.append(fail('ConeCyl.lb modes are not expanded with zeros on the prescribed amplitudes', sig=None, case=case))
    else:
        judge(Md, Ad, cc.eigvals, vecs[pos:], act, fails, dict(case=case), exact=exact, ordered=True, num=case['num'])
    return dict(fails=fails[:4], execs=1, transitions=1, nontrivial=1)


def check_case(case):
    return dict(pair=check_pair, panel=check_panel, shell=check_shell)[case['kind']](case)
