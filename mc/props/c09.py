"""C09 - Newton-Raphson driver: E1 choice-tree explorer over environment answer histories.

The real ``Analysis.static(NLgeom=True)`` is driven with scripted callables.  ``calc_fint(c, inc)`` returns
``fext(inc) - R`` where the residual R is a *function of (c, inc)* populated lazily: the first query of a key is a
choice point whose alternatives come from a small alphabet relative to the previous residual of the load step.
Every execution runs to completion (default choice afterwards), the tree of choice prefixes is explored depth-first,
complete up to a deviation bound, with merging of equal driver states at load-step boundaries (state read from the
driver's frame, no source hook).  Oracle = the property, evaluated on every complete execution.
"""
import itertools
import sys

import numpy as np
from scipy.sparse import csr_matrix

from ..core import fail, digest

RULE = ('one case = one driver configuration x exploration granularity x first choice; inside it every choice prefix up to the '
        'deviation bound / depth is executed on the real driver; non-trivial execution = at least one load step did not converge '
        'at its first opportunity (a bisection, late convergence, divergence, slow convergence or iteration limit occurred)')
ASSUMPTIONS = ['environment = deterministic function of (c, load factor) with residual magnitudes from a 5-letter alphabet',
               'bisection factor 0.3 used only to judge whether a minimum-increment stop was legitimate',
               'driver state for merging read from the frame of _solver_NR (inc,total,max_total,once_at_total,compute_kT,cs); '
               'falls back to no merging if these locals are renamed']

HORIZON = 6000          # callable invocations per execution
ITER_LETTERS = ['C', 'H', 'S', 'E', 'U', 'X']     # default first; X = the user callable returns NaN (state left the domain of the force law)
MODES = ['fast', 'late', 'diverge', 'slow', 'never', 'nan']
LS_LETTERS = ['h', 'n', 'e']


class Horizon(Exception):
    pass


class Env:
    """Scripted environment for one execution."""

    def __init__(self, cfg, prefix, gran):
        self.cfg, self.gran = cfg, gran
        self.prefix = list(prefix)
        self.choices = []            # choices actually taken
        self.points = []             # per choice point: (n_alternatives, state_key or None, kind)
        self.n = cfg.get('ndof', 2)
        self.K = csr_matrix(np.diag([2.0, 5.0][:self.n]) + (0.5 * (np.ones((self.n, self.n)) - np.eye(self.n))))
        self.f0 = np.array([1.0, -0.7][:self.n]) * 3.0
        self.dirv = np.array([1.0, -0.6][:self.n])
        self.memo = {}
        self.calls = 0
        self.unexpected_hits = 0
        self.attempts = []           # dict(total, outcome letters)
        self.cur = None
        self.snap = []               # bytes of cs entries as first seen
        self.snap_viol = None
        self.analysis = None
        self.linear = cfg.get('linear', False)
        self.fresh_keys_expected = set()
        self.last_state_key = None
        self.in_ls = False

    # ---- bookkeeping on every callable invocation
    def tick(self, check=False):
        self.calls += 1
        if self.calls > HORIZON:
            raise Horizon()
        if check:
            self.check_snapshots()

    def check_snapshots(self):
        an = self.analysis
        if an is not None and an.cs is not None:
            for k, c in enumerate(an.cs):
                b = np.asarray(c).tobytes()
                if k < len(self.snap):
                    if self.snap[k] != b and self.snap_viol is None:
                        self.snap_viol = k
                else:
                    self.snap.append(b)

    def choose(self, nalt, kind, key=None):
        i = len(self.choices)
        ch = self.prefix[i] if i < len(self.prefix) else 0
        if ch >= nalt:
            raise RuntimeError('replay diverged: choice %d out of range %d at point %d' % (ch, nalt, i))
        self.choices.append(ch)
        self.points.append((nalt, key, kind))
        return ch

    # ---- callables
    def calc_fext(self, inc=1., silent=True, **kw):
        self.tick(True)
        fr = sys._getframe(1)
        if fr.f_code.co_name == '_solver_NR':
            loc = fr.f_locals
            try:
                an = self.analysis
                key = (float(loc['inc']), float(loc['total']), float(loc['max_total']), bool(loc['once_at_total']),
                       bool(loc['compute_kT']), len(an.cs), an.cs[-1].tobytes() if an.cs else b'',
                       int(loc['step_num']) == 1)
                self.last_state_key = digest([repr(k) for k in key])
            except Exception:
                self.last_state_key = None
        self.cur = dict(total=float(inc), letters=[], prev=1.0, it=0, mode=None, key=self.last_state_key)
        self.attempts.append(self.cur)
        return inc * self.f0

    def calc_k0(self, silent=True, **kw):
        self.tick()
        return self.K

    def calc_kT(self, c=None, inc=None, silent=True, **kw):
        self.tick(True)
        return self.K

    def mag_of(self, letter, prev):
        tol = self.cfg['absTOL']
        if letter == 'C':
            return 0.4 * tol
        if letter == 'X':
            return float('nan')
        mag = {'H': 0.5 * prev, 'S': prev * (1 - 0.5 * self.cfg['too_slow_TOL']), 'E': prev, 'N': 0.9 * prev,
               'U': 2.0 * prev}[letter]
        return max(mag, 3.0 * tol)          # a non-C letter never converges by accident

    def mode_mag(self, mode, it):
        """Residual magnitude the mode dictates at Newton iteration ``it`` (1-based) of an attempt."""
        prev = 1.0
        mag = None
        for t in range(1, it + 1):
            letter = self.mode_letter(mode, t)
            mag = self.mag_of(letter, prev)
            if letter not in ('C', 'X'):
                prev = mag
        return mag, letter

    def residual_for(self, c, inc, is_ls):
        key = (np.asarray(c, dtype=float).tobytes(), float(inc))
        cur = self.cur
        hit = self.memo.get(key)
        if is_ls:
            if hit is not None:
                return hit
            if self.gran == 'iter':
                if len(self.choices) < max(self.cfg['depth'], len(self.prefix)):
                    ch = self.choose(len(LS_LETTERS), 'ls')
                else:
                    ch = 0
                rho = {'h': 0.5, 'n': -0.5, 'e': 1.0}[LS_LETTERS[ch]]
                R = rho * cur['Rvec']
                if np.abs(R).max() < 3.0 * self.cfg['absTOL']:
                    R = cur['Rvec']
            else:
                R = self.mode_mag(cur['mode'], cur['it'] + 1)[0] * self.dirv
            self.memo[key] = R
            return R
        cur['it'] += 1
        self.check_snapshots()
        if hit is not None:
            if not self.cfg['line_search']:
                self.unexpected_hits += 1
            mag = float(np.abs(hit).max() / np.abs(self.dirv).max())
            cur['letters'].append('C' if mag < self.cfg['absTOL'] else 'F')
            if mag >= self.cfg['absTOL']:
                cur['prev'] = mag
            cur['Rvec'] = hit
            return hit
        if self.gran == 'iter':
            if len(self.choices) < max(self.cfg['depth'], len(self.prefix)):
                ch = self.choose(len(ITER_LETTERS), 'iter', key=cur['key'] if cur['it'] == 1 else None)
            else:
                ch = 0
            letter = ITER_LETTERS[ch]
            mag = self.mag_of(letter, cur['prev'])
        else:
            if cur['mode'] is None:
                ch = self.choose(len(MODES), 'mode', key=cur['key'])
                cur['mode'] = MODES[ch]
            mag, letter = self.mode_mag(cur['mode'], cur['it'])
        cur['letters'].append(letter)
        if letter not in ('C', 'X'):
            cur['prev'] = mag
        R = mag * self.dirv
        cur['Rvec'] = R
        self.memo[key] = R
        return R

    def mode_letter(self, mode, it):
        m = self.cfg['maxNumIter']
        if mode == 'fast':
            return 'H' if it == 1 else 'C'
        if mode == 'late':
            return 'C' if it >= m else 'N'
        if mode == 'diverge':
            return 'H' if it <= 2 else 'U'
        if mode == 'slow':
            return 'H' if it <= 2 else 'S'
        if mode == 'nan':
            return 'H' if it == 1 else 'X'
        return 'N'

    def calc_fint(self, c=None, inc=None, silent=True, **kw):
        self.tick()
        if self.linear:
            return self.K.dot(c)
        is_ls = self._in_line_search(sys._getframe(1))
        R = self.residual_for(c, inc, is_ls)
        return inc * self.f0 - R

    @staticmethod
    def _in_line_search(fr):
        # inside the line-search loop the driver has c1/c2 bound *and* is evaluating one of them; we recognise the
        # call by the variable being assigned next: fint1 / fint2 are evaluated on lines that mention calc_fint(c=c1|c2
        import linecache
        line = linecache.getline(fr.f_code.co_filename, fr.f_lineno)
        return 'c=c1' in line or 'c=c2' in line


def run_once(cfg, prefix, gran):
    from compmech.analysis import Analysis
    env = Env(cfg, prefix, gran)
    an = Analysis(env.calc_fext, env.calc_k0, env.calc_fint, env.calc_kT)
    for k in ('initialInc', 'minInc', 'maxInc', 'maxNumIter', 'line_search', 'max_iter_line_search', 'modified_NR',
              'compute_every_n', 'kT_initial_state', 'too_slow_TOL', 'absTOL'):
        if k in cfg:
            setattr(an, k, cfg[k])
    env.analysis = an
    horizon = False
    err = None
    try:
        with np.errstate(all='ignore'):
            an.static(NLgeom=True, silent=True)
    except Horizon:
        horizon = True
    except Exception as e:      # driver crashed
        err = repr(e)
    return env, an, horizon, err


def run_twice(cfg, prefix1, prefix2, gran, linear_first=False):
    """Two analyses on the SAME Analysis object (as Panel.static / ConeCyl.static do when they are called again): the first one
    follows prefix1, then the callables are replaced by those of a fresh environment following prefix2.  Returns the second
    environment and the object after the second run."""
    env1, an, hz1, err1 = run_once(dict(cfg, linear=True) if linear_first else cfg, prefix1, gran)
    if hz1 or err1:
        return env1, an, hz1, err1, True
    first_cs = [np.array(c) for c in (an.cs or [])]
    first_incs = [float(v) for v in (an.increments or [])]
    env = Env(cfg, prefix2, gran)
    an.calc_fext, an.calc_k0, an.calc_fint, an.calc_kT = env.calc_fext, env.calc_k0, env.calc_fint, env.calc_kT
    env.analysis = an
    env.snap = []
    # the lists of the first run must not be taken for states of the second one
    an_cs_before = an.cs
    horizon, err = False, None
    try:
        with np.errstate(all='ignore'):
            an.static(NLgeom=True, silent=True)
    except Horizon:
        horizon = True
    except Exception as e:
        err = repr(e)
    env.first_run = (first_incs, first_cs, an_cs_before)
    return env, an, horizon, err, False


def oracle(env, an, horizon, err, cfg):
    out = []
    if err is not None:
        out.append(('driver raised %s' % err.split('(')[0], dict(error=err)))
        return out
    if horizon:
        out.append(('analysis did not terminate within %d callable invocations' % HORIZON, {}))
        return out
    incs = [float(v) for v in an.increments]
    cs = an.cs
    tol = cfg['absTOL']
    if len(incs) != len(cs):
        out.append(('number of reported load factors and states differ', dict(incs=incs, n=len(cs))))
    for k, (lam, c) in enumerate(zip(incs, cs)):
        if env.linear:
            R = lam * env.f0 - env.K.dot(c)
        else:
            R = env.memo.get((np.asarray(c, dtype=float).tobytes(), lam))
            if R is None:
                out.append(('reported state was never evaluated at its reported load factor', dict(k=k, lam=lam)))
                continue
        if not np.abs(R).max() < tol:
            out.append(('reported state is not equilibrated: max|fext-fint| >= absTOL', dict(k=k, lam=lam, Rmax=float(np.abs(R).max()), absTOL=tol)))
    for k in range(len(incs)):
        if not (0 < incs[k] <= 1 + 1e-12):
            out.append(('reported load factor outside (0,1]', dict(k=k, lam=incs[k])))
        if k and not incs[k] > incs[k - 1]:
            out.append(('reported load factors not strictly increasing', dict(incs=incs)))
    if env.snap_viol is not None:
        out.append(('a reported state was altered after it was reported', dict(k=env.snap_viol)))
    for k, c in enumerate(cs):
        if k < len(env.snap) and np.asarray(c).tobytes() != env.snap[k]:
            out.append(('a reported state was altered after it was reported', dict(k=k)))
        for j in range(k):
            if c is cs[j] or np.shares_memory(c, cs[j]):
                out.append(('two reported states share memory', dict(k=k, j=j)))
    ended_at_one = bool(incs) and abs(incs[-1] - 1.0) <= 1e-9
    if not ended_at_one:
        last = env.attempts[-1] if env.attempts else None
        base = incs[-1] if incs else 0.0
        inc_last = (last['total'] - base) if last else None
        legit = inc_last is not None and last['total'] > base and 0.3 * inc_last < cfg['minInc'] * (1 + 1e-9)
        if not legit:
            out.append(('analysis ended with last load factor != 1 although the increment had not fallen below minInc',
                        dict(incs=incs[-3:], last_attempt=last['total'] if last else None, inc_last=inc_last, minInc=cfg['minInc'])))
    if env.linear:
        if not ended_at_one:
            out.append(('linear problem not solved to full load', dict(incs=incs)))
        else:
            cref = np.linalg.solve(env.K.toarray(), env.f0)
            if np.abs(cs[-1] - cref).max() > 1e-10 * np.abs(cref).max():
                out.append(('linear problem: final state is not the linear solution', dict(c=cs[-1], cref=cref)))
    return out


DEFAULT = dict(initialInc=0.3, minInc=1e-3, maxInc=1.0, maxNumIter=30, line_search=True, max_iter_line_search=20,
               modified_NR=True, compute_every_n=6, kT_initial_state=True, too_slow_TOL=0.01, absTOL=1e-3)
ALPH = dict(initialInc=[0.3, 0.05, 0.7, 0.9995, 1.0], minInc=[1e-3, 0.02, 0.1], maxInc=[1.0, 0.2],
            maxNumIter=[30, 3, 6], line_search=[True, False], max_iter_line_search=[20, 2], modified_NR=[True, False],
            compute_every_n=[6, 1, 2], kT_initial_state=[True, False], too_slow_TOL=[0.01, 0.5], absTOL=[1e-3, 1e-6])


def configs(maxdev):
    """Configuration lattice: every assignment with <= maxdev coordinates off their default."""
    keys = list(ALPH)
    out = []
    for k in range(maxdev + 1):
        for ks in itertools.combinations(keys, k):
            for vals in itertools.product(*[ALPH[q][1:] for q in ks]):
                c = dict(DEFAULT)
                c.update(dict(zip(ks, vals)))
                out.append(c)
    return out


def cases(tier, seed):
    out = []
    q = tier == 'quick'
    # (a) step-level exploration, deviation bounded, over the configuration lattice around the default
    for cfg in configs(1 if q else 2):
        out.append(dict(gran='mode', cfg=dict(cfg), bound=2, first=None))
    # (b) deeper bounds / full spaces on cheap base configurations, split by first choice
    #     (measured: bound 4 on B6 = 9,000 executions / 2 minutes per first choice; bound 5 = more than 40,000: not attempted)
    B6 = dict(DEFAULT, line_search=False, maxNumIter=6)
    deep = [(B6, 3, 4), (dict(DEFAULT, line_search=False), 2, 3), (dict(DEFAULT), 2, 3),
            (dict(B6, minInc=0.02), 3, 4), (dict(B6, minInc=0.1, initialInc=0.7), 99, 99),
            (dict(B6, minInc=0.02, modified_NR=False), 3, 4), (dict(DEFAULT, minInc=0.1, max_iter_line_search=2, maxNumIter=6), 4, 5),
            (dict(B6, initialInc=0.9995), 3, 5), (dict(B6, maxInc=0.2, minInc=0.02), 2, 3), (dict(B6, initialInc=1.0), 3, 4)]
    for cfg, bq, bt in deep:
        for first in range(len(MODES)):
            out.append(dict(gran='mode', cfg=cfg, bound=bq if q else bt, first=first))
    # (c) iteration-level exploration: all answer sequences up to a depth
    it_cfgs = [dict(DEFAULT, line_search=False, maxNumIter=6), dict(DEFAULT, line_search=False, maxNumIter=3),
               dict(DEFAULT, line_search=False, maxNumIter=6, modified_NR=False),
               dict(DEFAULT, line_search=False, maxNumIter=3, initialInc=1.0, minInc=0.1),
               dict(DEFAULT, line_search=True, maxNumIter=3, max_iter_line_search=2),
               dict(DEFAULT, line_search=True, maxNumIter=6, max_iter_line_search=2, absTOL=1e-6)]
    for cfg in it_cfgs:
        depth = (5 if not cfg['line_search'] else 4) if q else (7 if not cfg['line_search'] else 6)
        for first in range(len(ITER_LETTERS)):
            out.append(dict(gran='iter', cfg=dict(cfg, depth=depth), bound=99, first=first))
    # (e) a second analysis on the same Analysis object: every first-run history up to a depth x second-run first choice
    for cfg in [dict(DEFAULT, line_search=False, maxNumIter=6), dict(DEFAULT, line_search=False, maxNumIter=6, minInc=0.1, initialInc=0.7),
                dict(DEFAULT, maxNumIter=6, max_iter_line_search=2)]:
        for first in range(len(MODES)):
            out.append(dict(gran='second', cfg=cfg, bound=1 if q else 2, first=first))
    # (d) honest linear problem over the configuration lattice
    for cfg in configs(2 if q else 3):
        out.append(dict(gran='linear', cfg=dict(cfg, linear=True), bound=0, first=None))
    return out


def check_case(case):
    cfg, gran, bound = case['cfg'], case['gran'], case['bound']
    fails, seen_fail = [], set()
    execs = 0
    nontrivial = 0
    outcomes = {}
    trans = 0
    visited = {}
    merged = 0
    unexpected = 0
    max_depth = 0
    if 'replay_prefix' in case:
        env, an, hz, err = run_once(cfg, case['replay_prefix'], 'iter' if gran == 'iter' else 'mode')
        env2, an2, hz2, err2 = run_once(cfg, case['replay_prefix'], 'iter' if gran == 'iter' else 'mode')
        if env.choices != env2.choices or [float(v) for v in an.increments] != [float(v) for v in an2.increments]:
            return dict(fails=[fail('replay is not deterministic', a=env.choices, b=env2.choices)])
        for what, det in oracle(env, an, hz, err, cfg):
            fails.append(fail(what, sig=None, increments=[float(v) for v in (an.increments or [])],
                              attempts=[(a['total'], ''.join(a['letters'])) for a in env.attempts][:60], **det))
        return dict(fails=fails, execs=2)
    if gran == 'linear':
        env, an, hz, err = run_once(cfg, [], 'mode')
        for what, det in oracle(env, an, hz, err, cfg):
            fails.append(fail(what, sig=None, **det))
        return dict(fails=fails, execs=1, states=1, transitions=env.calls, outcomes=['linear'], nontrivial=0)
    if gran == 'second':
        return check_second(case)
    stack = [[case['first']] if case['first'] is not None else []]
    cap = int(__import__('os').environ.get('VERIF_C09_CAP', '0'))
    capped = False
    while stack:
        if cap and execs >= cap:
            capped = True
            break
        prefix = stack.pop()
        env, an, hz, err = run_once(cfg, prefix, 'iter' if gran == 'iter' else 'mode')
        execs += 1
        trans += len(env.choices)
        max_depth = max(max_depth, len(env.choices))
        unexpected += env.unexpected_hits
        res = oracle(env, an, hz, err, cfg)
        for what, det in res:
            if what not in seen_fail:
                seen_fail.add(what)
                fails.append(fail(what, sig=None, replay_case=dict(case, replay_prefix=list(env.choices)), prefix=env.choices, attempts=[(a['total'], ''.join(a['letters'])) for a in env.attempts][:40],
                                  increments=[float(v) for v in (an.increments or [])], **det))
        seq = tuple(classify(a, cfg) for a in env.attempts if a['letters'])
        key = ','.join(seq)[:300]
        outcomes[key] = outcomes.get(key, 0) + 1
        if any(s != 'conv2' for s in seq):
            nontrivial += 1
        # expand
        if len(env.choices) < len(prefix):
            fails.append(fail('replay diverged: fewer choice points than the prefix', prefix=prefix))
            continue
        dev_used = [0]
        for ch in env.choices:
            dev_used.append(dev_used[-1] + (1 if ch != 0 else 0))
        for i in range(len(prefix), len(env.choices)):
            nalt, skey, kind = env.points[i]
            if dev_used[i] + 1 > bound:
                continue
            if skey is not None:
                best = visited.get((skey, kind))
                if best is not None and best <= dev_used[i]:
                    merged += 1
                    continue
                visited[(skey, kind)] = dev_used[i]
            for alt in range(1, nalt):
                stack.append(env.choices[:i] + [alt])
    return dict(fails=fails[:8], execs=execs, states=len(visited) + execs, transitions=trans, nontrivial=nontrivial,
                outcomes=list(outcomes)[:200], capped=capped, merged=merged, max_depth=max_depth, n_outcomes=len(outcomes))


def check_second(case):
    """First run: every mode history with at most `bound` deviations after the given first choice; second run on the same object:
    default answers, and one deviation at its first choice point.  The oracle is applied to what the object reports after run 2."""
    cfg, bound = case['cfg'], case['bound']
    fails, seen = [], set()
    execs = trans = nontrivial = 0
    stack = [[case['first']]]
    firsts = []
    while stack:
        prefix = stack.pop()
        env, an, hz, err = run_once(cfg, prefix, 'mode')
        execs += 1
        firsts.append(list(env.choices))
        dev = [0]
        for ch in env.choices:
            dev.append(dev[-1] + (1 if ch != 0 else 0))
        for i in range(len(prefix), len(env.choices)):
            if dev[i] + 1 > bound + (1 if case['first'] else 0):
                continue
            for alt in range(1, env.points[i][0]):
                stack.append(env.choices[:i] + [alt])
    for p1 in firsts:
        for p2 in ([], [1], [2], [4]):
            env, an, hz, err, first_failed = run_twice(cfg, p1, p2, 'mode')
            execs += 1
            if first_failed:
                continue
            trans += len(env.choices)
            nontrivial += 1
            for what, det in oracle(env, an, hz, err, cfg):
                if what not in seen:
                    seen.add(what)
                    fails.append(fail('second analysis on the same object: ' + what, sig=None, first_run=p1, second_run=p2,
                                      increments=[float(v) for v in (an.increments or [])], **det))
    return dict(fails=fails[:8], execs=execs, states=execs, transitions=trans, nontrivial=nontrivial, outcomes=['second'], n_outcomes=1)


def classify(a, cfg):
    L = a['letters']
    if L and L[-1] == 'C' and len(L) >= 2:
        return 'conv%d' % len(L) if len(L) <= 3 else 'convlate'
    if len(L) > cfg['maxNumIter']:
        return 'maxit'
    if L and L[-1] == 'U':
        return 'div'
    if L and L[-1] in 'SE':
        return 'slow'
    return 'other:' + ''.join(L)[-4:]


def summarize(results, tier, seed):
    return dict(merged_states=sum(r.get('merged', 0) for r in results),
                max_choice_depth=max(r.get('max_depth', 0) for r in results),
                distinct_attempt_outcome_sequences=len(set(o for r in results for o in r.get('outcomes', []))),
                horizon_callable_invocations=HORIZON,
                granularities=dict((g, sum(r['execs'] for r in results if r['case']['gran'] == g)) for g in ('mode', 'iter', 'linear')))
