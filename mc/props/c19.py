"""C19 - piston-theory aerodynamic matrices represent the stated pressure law.

Lattice over model{plate, plate_w, cpanel} x flow{x,y} x coefficient letters x geometry x flags (w restrained on the flow
edges; free flow edges as a negative control where only linearity/support are demanded) x orders; plus the Mach route and
stiffened bays.  Oracle: ref.kA = beta*Int(w_A dw_B/dflow) - gamma*Int(w_A w_B), ref.cA = -i*aeromu*Int(w_A w_B).
"""
import itertools

import numpy as np

from .. import pan
from ..core import fail
from . import c02

RULE = ('one case = one element of the product model x flow x coefficients x geometry x flag pattern x orders (full product, small); '
        'non-trivial = beta or gamma or aeromu non-zero (all cases)')
ASSUMPTIONS = ['tolerance 1e-11 of the summand magnitude']
RTOL = 1e-11
SIG_GAMMA = 'C19:calc_kA-skew-symmetrises-the-curvature-part'
COEFS = [(2.3, 0.7, 0.11), (2.3, 0.0, 0.11), (0.0, 0.7, 0.0), (-1.1, 0.35, 2.0), (1.5, -0.4, 0.3)]
ORDS = [(4, 4), (3, 5), (6, 2), (2, 6), (9, 3)]
FLAGPATS = ['SSSS', 'CCCC', 'flowfree', 'generic_restrained', 'rot_only']


def flags_for(pat, flow, seed):
    fl = pan.flag_base('generic' if pat.startswith('generic') else ('FFFF' if pat in ('flowfree', 'rot_only') else pat), seed)
    ax = flow
    if pat in ('generic_restrained', 'rot_only'):
        fl['w1t' + ax] = 0.0
        fl['w2t' + ax] = 0.0
    return fl


def cases(tier, seed):
    out = []
    for model, flow, ci, geom, pat, (m, n) in itertools.product(['plate', 'plate_w', 'cpanel'], ['x', 'y'], range(len(COEFS)),
                                                               ['g1', 'g2'], FLAGPATS, ORDS):
        if tier == 'quick' and geom == 'g2' and (m, n) not in ORDS[:2]:
            continue
        out.append(dict(kind='panel', model=model, flow=flow, coef=ci, geom=geom, pat=pat, m=m, n=n, seed=seed))
    for model, flow, mach in itertools.product(['plate', 'cpanel'], ['x', 'y'], [1.3, 2.0, 1.0]):
        out.append(dict(kind='mach', model=model, flow=flow, mach=mach, seed=seed))
    for model, flow, ci, nst in itertools.product(['plate', 'cpanel'], ['x', 'y'], [0, 3, 4], [0, 1]):
        out.append(dict(kind='bay', model=model, flow=flow, coef=ci, nstiff=nst, seed=seed))
    # bays with coefficients derived from Mach number, density, speed and speed of sound (also mutually inconsistent data: the
    # documented formulas use each quantity where it is written)
    for model, flow, air in itertools.product(['plate', 'cpanel'], ['x', 'y'], range(len(AIR))):
        out.append(dict(kind='baymach', model=model, flow=flow, air=air, seed=seed))
    # the same Panel object evaluated under another definition first (edge restraints / geometry / orders changed in between)
    for model, flow, redef, ci in itertools.product(['plate', 'plate_w', 'cpanel'], ['x', 'y'], ['rotflags', 'geom', 'orders', 'flow', 'r'], [0, 3]):
        if redef == 'r' and model != 'cpanel':
            continue
        out.append(dict(kind='redef', model=model, flow=flow, redef=redef, coef=ci, geom='g1', pat='SSSS', m=4, n=4, seed=seed))
    return out


AIR = [(2.0, 1.225, 680.0, 340.0), (1.3, 1.225, 680.0, 340.0), (1.7, 0.4, 500.0, 300.0), (3.0, 0.9, 700.0, 295.0), (1.0, 1.0, 400.0, 330.0)]


def build(case, fl):
    a, b = c02.GEOMS[case.get('geom', 'g1')]
    cfg = dict(model=case['model'], a=a, b=b, r=3.0, lam='cross_sym', m=case.get('m', 4), n=case.get('n', 4), seed=case['seed'])
    p = pan.make_panel(cfg)
    for k, v in fl.items():
        setattr(p, k, v)
    p.flow = case['flow']
    ref = pan.rp.PanelRef(a, b, cfg['m'], cfg['n'], fl, r=3.0 if case['model'] == 'cpanel' else None,
                          dofs=('w',) if case['model'] == 'plate_w' else pan.rp.DOFS3)
    return p, ref, cfg


def check_panel(case):
    fails = []
    fl = flags_for(case['pat'], case['flow'], case['seed'])
    p, ref, cfg = build(case, fl)
    beta, gamma, aeromu = COEFS[case['coef']]
    gamma_eff = gamma if (case['model'] == 'cpanel' and case['flow'] == 'x') else 0.0   # gamma only for curved panels
    p.beta, p.gamma, p.aeromu = beta, gamma, 7.7 * aeromu + 0.3     # the attribute must not override calc_cA's argument
    p.calc_k0(silent=True)
    K = pan.dense(p.calc_kA(silent=True))
    restrained = fl['w1t' + case['flow']] == 0.0 and fl['w2t' + case['flow']] == 0.0
    nd = ref.nd
    a, b = cfg['a'], cfg['b']
    jac = a * b / 4
    dterm = ('w', 'w', jac * abs(beta) * (2 / a if case['flow'] == 'x' else 2 / b), 0, 1, 0, 0) if case['flow'] == 'x' else \
        ('w', 'w', jac * abs(beta) * 2 / b, 0, 0, 0, 1)
    S = ref.scale_of([dterm, ('w', 'w', jac * abs(gamma_eff), 0, 0, 0, 0)])
    wmask = np.zeros(ref.size, dtype=bool)
    wmask[nd - 1::nd] = True
    if np.any(K[~wmask, :] != 0) or np.any(K[:, ~wmask] != 0):
        fails.append(fail('kA touches amplitudes other than the out-of-plane ones', sig=None, case=case))
    ratio = 0.0
    if restrained:
        Kb, Kg = ref.kA_parts(beta, gamma_eff, case['flow'])
        Kr = Kb + Kg
        ratio, idx = pan.worst(K, Kr, S, RTOL)
        if ratio > 1:
            sig = None
            if gamma_eff != 0:
                # explained-by: whole kernel output skew-symmetrised (curvature part skew below the diagonal)
                Kw = np.triu(Kr) - np.triu(Kr, 1).T
                if pan.worst(K, Kw, S, RTOL)[0] <= 1:
                    sig = SIG_GAMMA
            fails.append(fail('calc_kA is not beta*Int(w_A dw_B/dflow) - gamma*Int(w_A w_B)' +
                              (' (explained by the curvature part being skew-symmetrised)' if sig else ''), sig=sig, case=case,
                              index=idx, got=float(K[idx]), expected=float(Kr[idx])))
        else:
            if pan.worst(Kb, -Kb.T, S, RTOL)[0] > 1:
                fails.append(fail('reference self-check failed: flow-derivative part not skew', sig=None, case=case))
    # unfinalised matrix (the form assemblies ask for): its upper triangle is the upper triangle of the complete form
    if restrained and not fails:
        p.beta, p.gamma = beta, gamma
        Ku = pan.dense(p.calc_kA(silent=True, finalize=False))
        if pan.worst(np.triu(Ku), np.triu(Kr), S, RTOL)[0] > 1:
            fails.append(fail('unfinalised kA (finalize=False) does not carry the upper triangle of beta*Int(w_A dw_B/dflow) - gamma*Int(w_A w_B)',
                              sig=None, case=case))
    # the same matrix placed at an offset inside a larger (global) matrix: a translation of the stand-alone one
    p.beta, p.gamma = beta, gamma
    off, big = 5, ref.size + 9
    Kp = pan.dense(p.calc_kA(size=big, row0=off, col0=off, silent=True))
    Kt = np.zeros((big, big))
    Kt[off:off + ref.size, off:off + ref.size] = K
    if Kp.shape != Kt.shape or np.abs(Kp - Kt).max() > 1e-13 * (np.abs(K).max() + 1e-300):
        fails.append(fail('kA placed at (row0, col0) inside a larger matrix is not the stand-alone kA translated there', sig=None, case=case))
    # linearity in the coefficients (edges between real executions), demanded also for free flow edges
    p.beta, p.gamma = 2 * beta, 2 * gamma
    K2 = pan.dense(p.calc_kA(silent=True))
    if pan.worst(K2, 2 * K, S, 10 * RTOL)[0] > 1:
        fails.append(fail('kA not linear in (beta, gamma)', sig=None, case=case))
    # damping
    p.get_size()
    p.calc_cA(aeromu, silent=True)
    C = pan.dense(p.cA)
    Cr = ref.cA(aeromu)
    Sc = ref.scale_of([('w', 'w', jac * abs(aeromu), 0, 0, 0, 0)])
    rc, ic = pan.worst(C, Cr, Sc, RTOL)
    if rc > 1:
        fails.append(fail('calc_cA is not -i*aeromu*Int(w_A w_B)', sig=None, case=case, index=ic, got=complex(C[ic]), expected=complex(Cr[ic])))
    if np.abs(C - C.T).max() > 0:
        fails.append(fail('cA not symmetric', sig=None, case=case))
    # flow along y == flow along x on the axis-exchanged panel (w block)
    execs = 3
    if case['flow'] == 'y' and restrained and case['model'] != 'cpanel':
        fl2 = {}
        for k, v in fl.items():
            k2 = k[:3] + ('y' if k[3] == 'x' else 'x')
            fl2[k2] = v
        case2 = dict(case, flow='x')
        a0, b0 = c02.GEOMS[case['geom']]
        from compmech.panel import Panel
        p2 = pan.make_panel(dict(model=case['model'], a=b0, b=a0, lam='cross_sym', m=case['n'], n=case['m'], seed=case['seed']))
        for k, v in fl2.items():
            setattr(p2, k, v)
        p2.flow = 'x'
        p2.beta, p2.gamma, p2.aeromu = beta, gamma, aeromu
        p2.calc_k0(silent=True)
        Kx = pan.dense(p2.calc_kA(silent=True))
        execs += 1
        m, n = case['m'], case['n']
        Ky = K[nd - 1::nd, nd - 1::nd].reshape(n, m, n, m)          # [j,i,l,k]
        Kxx = Kx[nd - 1::nd, nd - 1::nd].reshape(m, n, m, n)        # exchanged: [i,j,k,l]
        if np.abs(Ky - Kxx.transpose(1, 0, 3, 2)).max() > 1e-11 * np.abs(Ky).max():
            fails.append(fail('flow along y differs from flow along x on the axis-exchanged panel', sig=None, case=case))
    return dict(fails=fails, execs=execs, transitions=3, max_ratio=ratio if not fails else 0, nontrivial=1)


def check_mach(case):
    fails = []
    fl = flags_for('SSSS', case['flow'], case['seed'])
    p, ref, cfg = build(case, fl)
    rho, V, ainf, M = 1.225, 680.0, 340.0, case['mach']
    p.beta = None
    p.Mach, p.rho_air, p.V, p.speed_sound = M, rho, V, ainf
    p.calc_k0(silent=True)
    K = pan.dense(p.calc_kA(silent=True))
    Me = 1.0001 if M == 1.0 else M
    beta = rho * V ** 2 / np.sqrt(Me ** 2 - 1)
    gamma = beta / (2 * 3.0 * np.sqrt(Me ** 2 - 1)) if case['model'] == 'cpanel' else 0.0
    p2, _, _ = build(case, fl)
    p2.beta, p2.gamma = beta, gamma
    p2.calc_k0(silent=True)
    K2 = pan.dense(p2.calc_kA(silent=True))
    if np.abs(K - K2).max() > 1e-12 * np.abs(K2).max():
        fails.append(fail('coefficients derived from Mach, density and speed do not follow the linear piston-theory formulas',
                          sig=None, case=case, rel=float(np.abs(K - K2).max() / np.abs(K2).max())))
    return dict(fails=fails, execs=2, transitions=1, nontrivial=1)


def check_bay(case):
    from compmech.stiffpanelbay import StiffPanelBay
    fails = []
    beta, gamma, aeromu = COEFS[case['coef']]
    spb = StiffPanelBay()
    spb.a, spb.b, spb.m, spb.n = 2.0, 1.0, 4, 5
    if case['model'] == 'cpanel':
        spb.r = 3.0
    spb.stack, spb.plyt, spb.laminaprop, spb.mu = [0, 90, 90, 0], pan.PLYT, pan.M6, 1500.
    spb.flow = case['flow']
    spb.beta, spb.gamma, spb.aeromu = beta, gamma, aeromu
    spb.add_panel(y1=0, y2=0.4)
    spb.add_panel(y1=0.4, y2=1.0)
    if case['nstiff']:
        spb.add_bladestiff1d(ys=0.4, bf=0.05, fstack=[0, 90, 90, 0], fplyt=pan.PLYT, flaminaprop=pan.M6)
    spb.calc_k0(silent=True)      # history/fresh-object effects are C20's business
    try:
        K = pan.dense(spb.calc_kA(silent=True))
    except Exception as e:
        fails.append(fail('StiffPanelBay.calc_kA raises when the aerodynamic coefficients are given directly', sig='C19:bay-calc_kA-explicit-coefficients',
                          case=case, error=repr(e)[:300]))
        K = None
    size = spb.get_size()
    fl = pan.rp.default_flags()
    ref = pan.rp.PanelRef(2.0, 1.0, 4, 5, fl, r=3.0 if case['model'] == 'cpanel' else None)
    gamma_eff = gamma if (case['model'] == 'cpanel' and case['flow'] == 'x') else 0.0
    if K is not None:
        Kr = np.zeros((size, size))
        Kr[:ref.size, :ref.size] = ref.kA(beta, gamma_eff, case['flow'])
        sc = np.abs(Kr).max()
        if np.abs(K - Kr).max() > 1e-11 * sc:
            sig = None
            Kw = np.triu(Kr) - np.triu(Kr, 1).T
            if gamma_eff != 0 and np.abs(K - Kw).max() <= 1e-11 * sc:
                sig = SIG_GAMMA
            fails.append(fail('bay kA differs from the piston-theory bilinear form of the skin' +
                              (' (explained by the curvature part being skew-symmetrised)' if sig else ''), sig=sig, case=case))
    try:
        # history: the coefficients are changed after calc_kA; the next matrices must follow the current values
        for scale in (1.0, -0.5, 3.0):
            spb.aeromu = aeromu * scale
            spb.beta, spb.gamma = beta * scale, gamma * scale
            C = pan.dense(spb.calc_cA(silent=True))
            Cr = np.zeros((size, size), dtype=complex)
            Cr[:ref.size, :ref.size] = ref.cA(aeromu * scale)
            if np.abs(C - Cr).max() > 1e-11 * (np.abs(Cr).max() + 1e-300):
                fails.append(fail('bay cA differs from -i*aeromu*Int(w_A w_B) of the skin (coefficient changed after an earlier evaluation)'
                                  if scale != 1.0 else 'bay cA differs from -i*aeromu*Int(w_A w_B) of the skin', sig=None, case=case, scale=scale))
                break
            K2 = pan.dense(spb.calc_kA(silent=True))
            Kr2 = np.zeros((size, size))
            Kr2[:ref.size, :ref.size] = ref.kA(beta * scale, gamma_eff * scale, case['flow'])
            if np.abs(K2 - Kr2).max() > 1e-11 * (np.abs(Kr2).max() + 1e-300):
                fails.append(fail('bay kA does not follow coefficients changed after an earlier evaluation', sig=None, case=case, scale=scale))
                break
    except Exception as e:
        fails.append(fail('StiffPanelBay.calc_cA raises', sig='C19:bay-calc_cA-raises', case=case, error=repr(e)[:300]))
    # history: the flow direction of the bay changed after panels were added and matrices were evaluated
    try:
        other = 'y' if case['flow'] == 'x' else 'x'
        spb.flow = other
        spb.beta, spb.gamma = beta, gamma
        K3 = pan.dense(spb.calc_kA(silent=True))
        g3 = gamma if (case['model'] == 'cpanel' and other == 'x') else 0.0
        Kr3 = np.zeros((size, size))
        Kr3[:ref.size, :ref.size] = ref.kA(beta, g3, other)
        if np.abs(K3 - Kr3).max() > 1e-11 * (np.abs(Kr3).max() + 1e-300):
            fails.append(fail('bay kA does not follow the flow direction changed after the panels were added / after an earlier evaluation', sig=None,
                              case=case, new_flow=other))
    except Exception as e:
        fails.append(fail('StiffPanelBay.calc_kA raised after the flow direction was changed', sig=None, case=case, error=repr(e)[:300]))
    return dict(fails=fails, execs=3, transitions=3, nontrivial=1)


def check_baymach(case):
    from compmech.stiffpanelbay import StiffPanelBay
    fails = []
    M, rho, V, ainf = AIR[case['air']]
    spb = StiffPanelBay()
    spb.a, spb.b, spb.m, spb.n = 2.0, 1.0, 4, 5
    if case['model'] == 'cpanel':
        spb.r = 3.0
    spb.stack, spb.plyt, spb.laminaprop, spb.mu = [0, 90, 90, 0], pan.PLYT, pan.M6, 1500.
    spb.flow = case['flow']
    spb.beta = None
    spb.Mach, spb.rho_air, spb.V, spb.speed_sound = M, rho, V, ainf
    spb.add_panel(y1=0, y2=0.4)
    spb.add_panel(y1=0.4, y2=1.0)
    spb.calc_k0(silent=True)
    Me = 1.0001 if M == 1.0 else M
    beta = rho * V ** 2 / np.sqrt(Me ** 2 - 1)
    gamma = beta / (2 * 3.0 * np.sqrt(Me ** 2 - 1)) if (case['model'] == 'cpanel' and case['flow'] == 'x') else 0.0
    aeromu = beta / (Me * ainf) * (Me ** 2 - 2) / (Me ** 2 - 1)
    ref = pan.rp.PanelRef(2.0, 1.0, 4, 5, pan.rp.default_flags(), r=3.0 if case['model'] == 'cpanel' else None)
    size = spb.get_size()
    for order in (('kA', 'cA'), ('cA', 'kA')):
        for nm in order:
            try:
                if nm == 'kA':
                    K = pan.dense(spb.calc_kA(silent=True))
                    Kr = np.zeros((size, size)); Kr[:ref.size, :ref.size] = ref.kA(beta, gamma, case['flow'])
                    if np.abs(K - Kr).max() > 1e-11 * np.abs(Kr).max():
                        fails.append(fail('bay kA with coefficients derived from Mach, density and speed does not follow the piston-theory formulas',
                                          sig=None, case=case, rel=float(np.abs(K - Kr).max() / np.abs(Kr).max())))
                else:
                    C = pan.dense(spb.calc_cA(silent=True))
                    Cr = np.zeros((size, size), dtype=complex); Cr[:ref.size, :ref.size] = ref.cA(aeromu)
                    if np.abs(C - Cr).max() > 1e-11 * (np.abs(Cr).max() + 1e-300):
                        fails.append(fail('bay cA with the damping coefficient derived from Mach, density, speed and speed of sound is not '
                                          '-i*aeromu*Int(w_A w_B) with aeromu = beta/(Mach*a_inf)*(Mach^2-2)/(Mach^2-1)', sig=None, case=case,
                                          rel=float(np.abs(C - Cr).max() / (np.abs(Cr).max() + 1e-300))))
            except Exception as e:
                fails.append(fail('bay %s with derived coefficients raised' % nm, sig=None, case=case, error=repr(e)[:300]))
        if fails:
            break
    return dict(fails=fails[:4], execs=4, transitions=4, nontrivial=1)


def check_redef(case):
    """History on one Panel object: evaluate kA / cA under a neighbouring definition, change the definition, evaluate again."""
    fails = []
    fl = flags_for(case['pat'], case['flow'], case['seed'])
    p, ref, cfg = build(case, fl)
    beta, gamma, aeromu = COEFS[case['coef']]
    gamma_eff = gamma if (case['model'] == 'cpanel' and case['flow'] == 'x') else 0.0
    # first definition
    first = dict(rotflags={'w1r' + case['flow']: 0.0, 'w2r' + case['flow']: 0.0, 'w1r' + ('y' if case['flow'] == 'x' else 'x'): 0.0},
                 geom=dict(a=cfg['a'] * 1.3, b=cfg['b'] * 0.8), orders=dict(m=cfg['m'] + 1, n=cfg['n'] - 1),
                 flow=dict(flow='y' if case['flow'] == 'x' else 'x'), r=dict(r=1.1))[case['redef']]
    saved = {k: getattr(p, k) for k in first}
    for k, v in first.items():
        setattr(p, k, v)
    p.beta, p.gamma = beta, gamma
    p.calc_k0(silent=True)
    p.calc_kA(silent=True)
    p.calc_cA(aeromu, silent=True)
    for k, v in saved.items():
        setattr(p, k, v)
    p.calc_k0(silent=True)
    K = pan.dense(p.calc_kA(silent=True))
    p.calc_cA(aeromu, silent=True)
    C = pan.dense(p.cA)
    Kr, Cr = ref.kA(beta, gamma_eff, case['flow']), ref.cA(aeromu)
    if K.shape != Kr.shape or np.abs(K - Kr).max() > 1e-11 * np.abs(Kr).max():
        fails.append(fail('kA of a re-used Panel object whose definition ("%s") was changed after an earlier evaluation differs from the '
                          'piston-theory form of the current definition' % case['redef'], sig=None, case=case))
    if C.shape != Cr.shape or np.abs(C - Cr).max() > 1e-11 * np.abs(Cr).max():
        fails.append(fail('cA of a re-used Panel object whose definition ("%s") was changed after an earlier evaluation differs from '
                          '-i*aeromu*Int(w_A w_B) of the current definition' % case['redef'], sig=None, case=case))
    return dict(fails=fails, execs=6, transitions=2, nontrivial=1)


def check_case(case):
    return dict(panel=check_panel, mach=check_mach, bay=check_bay, baymach=check_baymach, redef=check_redef)[case['kind']](case)


def summarize(results, tier, seed):
    return dict(max_err_over_tol=max(r.get('max_ratio', 0) for r in results), caps_hit=False)
