"""C13 - assembled matrices = sum of stand-alone component matrices (+ connections); skin partition is irrelevant.

Full products over compositions:
  assemblies : all sequences of length 1..L over three panel types with different orders (L=3 quick, 4 thorough)
  bays       : all subsets of cut positions {.2b,.35b,.5b,.8b} x all stiffener sequences of length 0..2 over six stiffener
               letters placed on available cuts x {flat, curved}
Differential oracles between real executions (no hand-written expected numbers):
  global == sum of each component evaluated stand-alone at an independently computed offset (+ connection matrix);
  size == sum of component sizes; re-cutting the skin changes nothing; adding a stiffener adds a symmetric PSD
  contribution that touches only the skin and that stiffener's own amplitudes.
"""
import itertools

import numpy as np

from .. import pan
from ..core import fail

RULE = ('one case = one composition (assembly sequence or bay = cut subset x stiffener sequence x curvature); non-trivial = composition '
        'with at least two components')
ASSUMPTIONS = ['stand-alone component = same class, freshly defined, called alone with the offset computed by the harness',
               'tolerance 1e-12 of max|entry| (sums are re-associated)']
PTYPES = {'A': dict(m=3, n=3, b=0.3, lam='cross_sym'), 'B': dict(m=4, n=3, b=0.2, lam='general'), 'C': dict(m=2, n=5, b=0.45, lam='angle')}
CUTS = [0.2, 0.35, 0.5, 0.8]
STIFFS = ['b1d_bf', 'b1d_f', 'b1d_b', 'b2d_bf', 'b2d_f', 't2d', 't2d_s']
TOL = 1e-12


def cases(tier, seed):
    out = []
    L = 3 if tier == 'quick' else 4
    for n in range(1, L + 1):
        for seq in itertools.product('ABC', repeat=n):
            out.append(dict(kind='assembly', seq=''.join(seq), seed=seed))
    for curved in (0, 1):
        for k in range(0, len(CUTS) + 1):
            for cuts in itertools.combinations(range(len(CUTS)), k):
                seqs = [()] + [(s,) for s in STIFFS] + (list(itertools.product(STIFFS, repeat=2)) if len(cuts) >= 2 else [])
                for seq in seqs:
                    if len(seq) > len(cuts):
                        continue
                    if len(seq) == 2 and 't2d_s' in seq and set(seq) != {'t2d', 't2d_s'}:
                        continue          # the small T stiffener is paired with the large one only (both orders)
                    if tier == 'quick' and len(seq) == 2 and (curved or len(cuts) > 2):
                        continue
                    if tier == 'quick' and len(cuts) == 3:
                        continue
                    if tier == 'quick' and curved and len(cuts) in (2, 4) and len(seq) == 1 and seq[0] not in ('b1d_bf', 't2d'):
                        continue
                    out.append(dict(kind='bay', curved=curved, cuts=list(cuts), stiffs=list(seq), seed=seed))
                    n2d = sum(1 for st in seq if stiff_size(st))
                    if n2d and not curved and len(cuts) <= 2:
                        if tier == 'quick' and (len(cuts) != max(1, len(seq)) or (len(seq) == 2 and cuts != (0, 2))):
                            continue
                        for loads in (['all'] if len(seq) == 1 else ['all', 'later', 'first']):
                            out.append(dict(kind='bay', curved=curved, cuts=list(cuts), stiffs=list(seq), loads=loads, seed=seed))
    # assemblies with connections that are not symmetric in their two panels (skin-base, base-flange): every order of the panel list
    for perm in itertools.permutations(range(3)):
        for conns in ('SB+BFycte', 'SB+BFxcte', 'SB', 'BFycte+SSxcte'):
            out.append(dict(kind='perm', perm=list(perm), conns=conns, seed=seed))
    # skins whose strips differ in laminate, ply thickness and density: global skin matrices = sum of stand-alone strips
    for curved in (0, 1):
        for k in range(1, (2 if tier == 'quick' else 4) + 1):
            for cuts in itertools.combinations(range(len(CUTS)), k):
                for how in ('plyt', 'plyts', 'stack+mu'):
                    out.append(dict(kind='hetero', curved=curved, cuts=list(cuts), how=how, seed=seed))
    return out


# ------------------------------------------------------------------------------------------------ assemblies
def mk_panel(t, seed):
    d = PTYPES[t]
    p = pan.make_panel(dict(model='plate', a=0.6, b=d['b'], lam=d['lam'], m=d['m'], n=d['n'], fbase='SSSS', seed=seed))
    for f in ('u2ty', 'v2ty', 'w2ty', 'w2ry', 'u1ty', 'v1ty', 'w1ty', 'w1ry'):
        setattr(p, f, 1.0)
    p.Nxx, p.Nxy = -1.0e3, 0.2e3
    if t == 'B':            # a constant pre-load (part of k0) on one panel type, wherever it sits in the assembly
        p.Nxx_cte, p.Nxy_cte = -4.0, 1.0            # about one third of the critical level of this pattern (stays positive definite)
    p.add_force(0.3, 0.5 * d['b'], 1.0, -2.0, 5.0, cte=True)
    p.add_force(0.45, 0.25 * d['b'], 0.0, 1.0, -3.0, cte=False)
    return p


def check_assembly(case):
    from compmech.panel.assembly import PanelAssembly
    seed = case['seed']
    seq = case['seq']
    fails = []
    panels = [mk_panel(t, seed) for t in seq]
    conn = [dict(p1=panels[i], p2=panels[i + 1], func='SSycte', ycte1=panels[i].b, ycte2=0.) for i in range(len(panels) - 1)]
    assy = PanelAssembly(panels, conn)
    size = assy.get_size()
    sizes = [3 * PTYPES[t]['m'] * PTYPES[t]['n'] for t in seq]
    offs = np.concatenate(([0], np.cumsum(sizes)))
    if size != sum(sizes):
        fails.append(fail('assembly size is not the sum of the component sizes', sig=None, case=case, got=size, expected=sum(sizes)))
        return dict(fails=fails)
    for i, p in enumerate(panels):
        if (p.row_start, p.col_start, p.row_end, p.col_end) != (offs[i], offs[i], offs[i + 1], offs[i + 1]):
            fails.append(fail('panel range in the global vector is not the cumulative size of the preceding panels', sig=None, case=case, panel=i))
    G = dict(k0=pan.dense(assy.calc_k0(silent=True)), kG0=pan.dense(assy.calc_kG0(silent=True)), kM=pan.dense(assy.calc_kM(silent=True)))
    fext = np.asarray(assy.calc_fext(silent=True, inc=0.6))
    kc = pan.dense(assy.get_k0_conn()) if conn else np.zeros((size, size))
    execs = 5
    S = dict(k0=kc.copy(), kG0=np.zeros((size, size)), kM=np.zeros((size, size)))
    fsum = np.zeros(size)
    for i, t in enumerate(seq):
        q = mk_panel(t, seed)          # stand-alone, fresh
        o = int(offs[i])
        # evaluated alone with its OWN size at offset 0 and placed at the harness-computed offset by the harness (placement by the
        # package itself, size/row0/col0, is compared with this as well)
        n_own = int(sizes[i])
        for nm, fn in (('k0', q.calc_k0), ('kG0', q.calc_kG0), ('kM', q.calc_kM)):
            own = pan.dense(fn(silent=True))
            placed = pan.dense(fn(size=size, row0=o, col0=o, silent=True))
            S[nm][o:o + n_own, o:o + n_own] += own
            ref_placed = np.zeros((size, size)); ref_placed[o:o + n_own, o:o + n_own] = own
            if own.shape != (n_own, n_own) or np.abs(placed - ref_placed).max() > TOL * (np.abs(own).max() + 1e-300):
                fails.append(fail('%s of a panel placed by the package at an offset inside a larger matrix is not its stand-alone matrix at that offset' % nm,
                                  sig=None, case=case, panel=i))
        fsum[o:o + n_own] += np.asarray(q.calc_fext(inc=0.6, silent=True))
        execs += 7
    for nm in ('k0', 'kG0', 'kM'):
        sc = np.abs(S[nm]).max() + 1e-300
        if np.abs(G[nm] - S[nm]).max() > TOL * sc:
            idx = np.unravel_index(np.argmax(np.abs(G[nm] - S[nm])), S[nm].shape)
            fails.append(fail('assembly %s is not the sum of the stand-alone panel matrices%s' % (nm, ' plus the connection matrix' if nm == 'k0' else ''),
                              sig=None, case=case, index=[int(v) for v in idx], got=float(G[nm][idx]), expected=float(S[nm][idx])))
    if np.abs(fext - fsum).max() > TOL * (np.abs(fsum).max() + 1e-300):
        fails.append(fail('assembly force vector is not the concatenation of the stand-alone panel force vectors', sig=None, case=case))
    return dict(fails=fails, execs=execs, transitions=execs, nontrivial=int(len(seq) > 1))


# ------------------------------------------------------------------------------------------------ bays
def mk_bay(curved, cut_idx, stiffs, seed, only=None, forces=False, extra_cuts=True, loads='none', force_y=None):
    """Bay with skin cut at the given positions and stiffeners placed on the first cuts (in order)."""
    from compmech.stiffpanelbay import StiffPanelBay
    spb = StiffPanelBay()
    spb.a, spb.b, spb.m, spb.n = 0.8, 0.5, 4, 5
    if curved:
        spb.r = 2.0
    spb.stack, spb.plyt, spb.laminaprop, spb.mu = [0., 90., 90., 0.], pan.PLYT, pan.M6, 1500.
    if not extra_cuts:          # keep only the cuts that carry a stiffener
        cut_idx = list(cut_idx)[:len(stiffs)]
    ys = [0.0] + [CUTS[i] * spb.b for i in cut_idx] + [spb.b]
    for y1, y2 in zip(ys[:-1], ys[1:]):
        spb.add_panel(y1=y1, y2=y2, Nxx=-1.0e3, Nxy=0.3e3)
    fl = dict(bf=0.03, fstack=[0., 90., 0.], fplyt=pan.PLYT, flaminaprop=pan.M6)
    bs = dict(bb=0.16, bstack=[0., 90.], bplyt=pan.PLYT, blaminaprop=pan.M6)      # wider than the distance between neighbouring cuts
    for k, st in enumerate(stiffs):
        if only is not None and k != only:
            continue
        y = ys[1 + k]
        # pad-up laminates that are not symmetric about their own mid-plane (they are offset from the skin mid-plane)
        bs_u = dict(bs, bstack=[90., 0.])
        bs_v = dict(bs, bstack=[45., 0.])
        if st == 'b1d_bf':
            s = spb.add_bladestiff1d(ys=y, mu=1500., Fx=-50., **fl, **bs_u)
        elif st == 'b1d_f':
            s = spb.add_bladestiff1d(ys=y, mu=1500., Fx=-50., **fl)
        elif st == 'b1d_b':
            s = spb.add_bladestiff1d(ys=y, mu=1500., **bs)
        elif st == 'b2d_bf':
            s = spb.add_bladestiff2d(ys=y, mu=1500., mf=3, nf=4, **fl, **bs_v)
        elif st == 'b2d_f':
            s = spb.add_bladestiff2d(ys=y, mu=1500., mf=3, nf=3, **fl)
        elif st == 't2d':
            s = spb.add_tstiff2d(ys=y, mu=1500., mf=3, nf=3, mb=2, nb=3, **fl, **bs)
        elif st == 't2d_s':           # a second T stiffener letter with smaller series orders
            s = spb.add_tstiff2d(ys=y, mu=1500., mf=2, nf=3, mb=2, nb=2, **fl, **bs)
        # membrane pre-load of the 2D stiffener regions: 'all', 'later' (every stiffener but the first), 'first'
        if stiff_size(st) and (loads == 'all' or (loads == 'later' and k > 0) or (loads == 'first' and k == 0)):
            s.flange.Nxx, s.flange.Nxy = -300. * (k + 1), 40.
            if st.startswith('t2d'):
                s.base.Nxx = -150. * (k + 1)
        if forces and stiff_size(st):
            s.flange.add_force(0.3 * spb.a, 0.5 * s.flange.b, 0.5 + k, 0., 1.5)
            if st.startswith('t2d'):
                s.base.add_force(0.7 * spb.a, 0.25 * s.base.b, 0., 1. + k, -2.)
    if forces:
        spb.forces_skin.append([0.37 * spb.a, 0.61 * spb.b, 1.3, -0.7, 2.9])
    if force_y is not None:           # a skin force at a given y (used with y on a cut line)
        spb.forces_skin.append([0.55 * spb.a, force_y, 0.4, 0.9, -1.7])
    return spb


def stiff_size(st):
    return {'b1d_bf': 0, 'b1d_f': 0, 'b1d_b': 0, 'b2d_bf': 3 * 3 * 4, 'b2d_f': 3 * 3 * 3, 't2d': 3 * 3 * 3 + 3 * 2 * 3, 't2d_s': 3 * 2 * 3 + 3 * 2 * 2}[st]


def global_order(stiffs):
    """The documented global ordering: skin, all 2D blade stiffeners (in order of definition), then all T stiffeners."""
    idx = [k for k, s in enumerate(stiffs) if s.startswith('b2d')] + [k for k, s in enumerate(stiffs) if s.startswith('t2d')]
    return idx


def mats(spb):
    return dict(k0=pan.dense(spb.calc_k0(silent=True)), kG0=pan.dense(spb.calc_kG0(silent=True)), kM=pan.dense(spb.calc_kM(silent=True)))


def check_bay(case):
    seed = case['seed']
    fails = []
    cuts, stiffs, curved = case['cuts'], case['stiffs'], case['curved']
    loads = case.get('loads', 'none')
    spb = mk_bay(curved, cuts, stiffs, seed, loads=loads)
    nskin = 3 * 4 * 5
    size = spb.get_size() if (spb.calc_k0(silent=True) is not None) else None
    exp_size = nskin + sum(stiff_size(s) for s in stiffs)
    if size != exp_size:
        fails.append(fail('bay size is not the sum of the component sizes', sig=None, case=case, got=size, expected=exp_size))
        return dict(fails=fails)
    G = mats(spb)
    execs = 4
    for nm, M in G.items():
        if np.abs(M - M.T).max() > 0:
            fails.append(fail('bay %s not symmetric' % nm, sig=None, case=case))
    # (1) skin partition irrelevant: same bay without any cut (stiffener positions need their cuts: compare stiffener-free bays)
    skin_cut = mats(mk_bay(curved, cuts, [], seed))
    skin_one = mats(mk_bay(curved, [], [], seed))
    execs += 6
    for nm in G:
        sc = np.abs(skin_one[nm]).max() + 1e-300
        if np.abs(skin_cut[nm] - skin_one[nm]).max() > 1e-11 * sc:
            fails.append(fail('splitting the uniformly laminated skin changes the global %s' % nm, sig=None, case=case,
                              rel=float(np.abs(skin_cut[nm] - skin_one[nm]).max() / sc)))
    if cuts:
        fa = mk_bay(curved, cuts, [], seed, forces=True, force_y=CUTS[cuts[0]] * mk_bay(curved, [], [], seed).b)
        fb = mk_bay(curved, [], [], seed, forces=True, force_y=CUTS[cuts[0]] * mk_bay(curved, [], [], seed).b)
        for o in (fa, fb):
            o.calc_k0(silent=True)
        va, vb = np.asarray(fa.calc_fext(silent=True), dtype=float), np.asarray(fb.calc_fext(silent=True), dtype=float)
        execs += 2
        if va.shape != vb.shape or np.abs(va - vb).max() > 1e-12 * (np.abs(vb).max() + 1e-300):
            fails.append(fail('splitting the skin changes the force vector (one of the skin forces acts on the cut line)', sig=None, case=case,
                              rel=float(np.abs(va - vb).max() / (np.abs(vb).max() + 1e-300)) if va.shape == vb.shape else None))
    # (2) global == skin + sum over stiffeners of (bay with only that stiffener - skin), each placed at its own range
    if stiffs:
        order = global_order(stiffs)
        offs = {}
        o = nskin
        for k in order:
            offs[k] = o
            o += stiff_size(stiffs[k])
        total = {nm: np.zeros((size, size)) for nm in G}
        for nm in G:
            total[nm][:nskin, :nskin] += skin_cut[nm]
        for k, st in enumerate(stiffs):
            single = mats(mk_bay(curved, cuts, stiffs, seed, only=k, loads=loads))
            execs += 3
            ns = stiff_size(st)
            for nm in G:
                D = single[nm].copy()
                D[:nskin, :nskin] -= skin_cut[nm]
                # contribution of the stiffener alone: symmetric, PSD for k0 and kM
                if nm in ('k0', 'kM'):
                    w = np.linalg.eigvalsh(D)
                    if w.min() < -1e-9 * (np.abs(D).max() + 1e-300):
                        fails.append(fail('adding a stiffener does not add a positive semi-definite %s contribution' % nm, sig=None,
                                          case=case, stiffener=k, kind=st, min_eig=float(w.min()), scale=float(np.abs(D).max())))
                if ns:
                    o = offs[k]
                    idx = np.r_[0:nskin, o:o + ns]
                    src = np.r_[0:nskin, nskin:nskin + ns]
                    total[nm][np.ix_(idx, idx)] += D[np.ix_(src, src)]
                else:
                    total[nm][:nskin, :nskin] += D[:nskin, :nskin]
        for nm in G:
            sc = np.abs(total[nm]).max() + 1e-300
            if np.abs(G[nm] - total[nm]).max() > 1e-11 * sc:
                idx = np.unravel_index(np.argmax(np.abs(G[nm] - total[nm])), G[nm].shape)
                fails.append(fail('bay %s is not the skin plus each stiffener evaluated alone and placed at its own range of amplitudes' % nm,
                                  sig=None, case=case, index=[int(v) for v in idx], got=float(G[nm][idx]), expected=float(total[nm][idx])))
        # (3) with the stiffeners present: cutting the skin at further positions changes nothing
        if len(cuts) > len(stiffs):
            M0 = mats(mk_bay(curved, cuts, stiffs, seed, extra_cuts=False, loads=loads))
            execs += 3
            for nm in G:
                sc = np.abs(M0[nm]).max() + 1e-300
                if np.abs(G[nm] - M0[nm]).max() > 1e-11 * sc:
                    fails.append(fail('splitting the skin at further positions changes the global %s of a stiffened bay' % nm, sig=None, case=case,
                                      rel=float(np.abs(G[nm] - M0[nm]).max() / sc)))
        # (4) force vector == skin forces + each stiffener's forces placed at that stiffener's own range
        fb = mk_bay(curved, cuts, stiffs, seed, forces=True)
        fb.calc_k0(silent=True)
        fext = np.asarray(fb.calc_fext(silent=True), dtype=float)
        exp = np.zeros(size)
        fs = mk_bay(curved, cuts, [], seed, forces=True)
        fs.calc_k0(silent=True)
        exp[:nskin] = np.asarray(fs.calc_fext(silent=True), dtype=float)
        for k, st in enumerate(stiffs):
            ns = stiff_size(st)
            if not ns:
                continue
            one = mk_bay(curved, cuts, stiffs, seed, only=k, forces=True)
            one.calc_k0(silent=True)
            f1 = np.asarray(one.calc_fext(silent=True), dtype=float)
            exp[offs[k]:offs[k] + ns] += f1[nskin:nskin + ns]
            execs += 1
        execs += 2
        if fext.shape != (size,) or np.abs(fext - exp).max() > 1e-12 * (np.abs(exp).max() + 1e-300):
            fails.append(fail('bay force vector is not the skin forces plus each stiffener\'s forces at that stiffener\'s own range of amplitudes',
                              sig=None, case=case, got=fext[nskin:nskin + 8] if fext.shape == (size,) else None, expected=exp[nskin:nskin + 8]))
    return dict(fails=fails[:6], execs=execs, transitions=execs, nontrivial=int(len(stiffs) + len(cuts) > 0))


def check_perm(case):
    """The same three panels and connections listed in another order: global matrices are the symmetric permutation of those of the
    canonical order (differential oracle between two real executions), and equal the component matrices plus connection matrices."""
    from compmech.panel.assembly import PanelAssembly
    seed = case['seed']
    fails = []

    def build(order):
        skin = pan.make_panel(dict(model='plate', a=0.6, b=0.3, lam='cross_sym', m=4, n=3, fbase='FFFF', seed=seed))
        base = pan.make_panel(dict(model='plate', a=0.6, b=0.3, lam='general', m=3, n=3, fbase='FFFF', seed=seed))
        flange = pan.make_panel(dict(model='plate', a=0.6, b=0.12, lam='angle', m=3, n=2, fbase='FFFF', seed=seed))
        ps = [skin, base, flange]
        for q in ps:
            q.Nxx = -1.0e3
            q.mu = 1500.
        conn = []
        for cn in case['conns'].split('+'):
            if cn == 'SB':
                conn.append(dict(p1=skin, p2=base, func='SB'))
            elif cn == 'BFycte':
                conn.append(dict(p1=base, p2=flange, func='BFycte', ycte1=0.17, ycte2=0.))
            elif cn == 'BFxcte':
                conn.append(dict(p1=base, p2=flange, func='BFxcte', xcte1=0.25, xcte2=0.))
            elif cn == 'SSxcte':
                conn.append(dict(p1=skin, p2=base, func='SSxcte', xcte1=0.6, xcte2=0.))
        assy = PanelAssembly([ps[i] for i in order], conn)
        out = dict(k0=pan.dense(assy.calc_k0(silent=True)), kG0=pan.dense(assy.calc_kG0(silent=True)), kM=pan.dense(assy.calc_kM(silent=True)))
        sizes = [3 * q.m * q.n for q in ps]
        start = {}
        o = 0
        for i in order:
            start[i] = o
            o += sizes[i]
        # index map canonical -> this order
        idx = np.concatenate([np.arange(start[i], start[i] + sizes[i]) for i in range(3)])
        return out, idx
    canon, _ = build([0, 1, 2])
    got, idx = build(case['perm'])
    for nm in canon:
        P = got[nm][np.ix_(idx, idx)]
        sc = np.abs(canon[nm]).max() + 1e-300
        if P.shape != canon[nm].shape or np.abs(P - canon[nm]).max() > 1e-12 * sc:
            fails.append(fail('assembly %s with the panels listed in another order is not the permuted matrix of the same assembly' % nm, sig=None,
                              case=case, rel=float(np.abs(P - canon[nm]).max() / sc)))
    return dict(fails=fails, execs=6, transitions=6, nontrivial=int(case['perm'] != [0, 1, 2]))


def check_hetero(case):
    """Bay skin made of strips that differ in ply thickness / laminate / density, relying on the bay defaults for everything else."""
    from compmech.stiffpanelbay import StiffPanelBay
    from compmech.panel import Panel
    fails = []
    spb = StiffPanelBay()
    spb.a, spb.b, spb.m, spb.n = 0.8, 0.5, 4, 5
    if case['curved']:
        spb.r = 2.0
    spb.stack, spb.plyt, spb.laminaprop, spb.mu = [0., 90., 90., 0.], pan.PLYT, pan.M6, 1500.
    ys = [0.0] + [CUTS[i] * spb.b for i in case['cuts']] + [spb.b]
    defs = []
    for k, (y1, y2) in enumerate(zip(ys[:-1], ys[1:])):
        kw = {}
        if k:                                   # the first strip relies on the bay defaults alone
            if case['how'] == 'plyt':
                kw = dict(plyt=pan.PLYT * (1 + 0.5 * k))
            elif case['how'] == 'plyts':
                kw = dict(plyts=[pan.PLYT * (1 + 0.25 * k * (i + 1)) for i in range(4)])
            else:
                kw = dict(stack=[30., -30.] * k, mu=1500. + 400. * k, plyt=pan.PLYT * (1 + 0.3 * k))
        spb.add_panel(y1=y1, y2=y2, Nxx=-1.0e3, Nxy=0.3e3, **kw)
        defs.append((y1, y2, kw))
    G = mats(spb)
    execs = 3
    size = 3 * 4 * 5
    total = {nm: np.zeros((size, size)) for nm in G}
    flagnames = [d + e + t + ax for d in 'uvw' for e in '12' for t in 'tr' for ax in 'xy']
    for (y1, y2, kw) in defs:
        q = Panel(a=spb.a, b=spb.b, m=spb.m, n=spb.n, r=spb.r, y1=y1, y2=y2, stack=kw.get('stack', spb.stack),
                  plyt=kw.get('plyt', spb.plyt), laminaprop=spb.laminaprop, mu=kw.get('mu', spb.mu))
        if 'plyts' in kw:
            q.plyts = list(kw['plyts'])
        q.model = spb.panels[0].model
        for f in flagnames:
            setattr(q, f, getattr(spb, f))
        q.Nxx, q.Nxy = -1.0e3, 0.3e3
        total['k0'] += pan.dense(q.calc_k0(silent=True))
        total['kG0'] += pan.dense(q.calc_kG0(silent=True))
        total['kM'] += pan.dense(q.calc_kM(silent=True))
        execs += 3
    for nm in G:
        sc = np.abs(total[nm]).max() + 1e-300
        if G[nm].shape != total[nm].shape or np.abs(G[nm] - total[nm]).max() > 1e-11 * sc:
            fails.append(fail('bay %s of a skin with differing strips is not the sum of the strips evaluated stand-alone' % nm, sig=None, case=case,
                              rel=float(np.abs(G[nm] - total[nm]).max() / sc) if G[nm].shape == total[nm].shape else None))
    return dict(fails=fails[:6], execs=execs, transitions=execs, nontrivial=1)


def check_case(case):
    return dict(assembly=check_assembly, bay=check_bay, hetero=check_hetero, perm=check_perm)[case['kind']](case)
