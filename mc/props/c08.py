"""C08 - internal force = energy gradient; tangent stiffness = its exact Jacobian (panels and assemblies).

Full product over model{plate,cpanel} x laminate x flag base x orders x state letter x Gauss letter x laminate-table form.
Oracles: (i) reference gradient/Hessian of U(c) = 1/2 Int eps^T F eps by Gauss quadrature at the same points;
(ii) finite differences of the package's own fint along a complete basis; (iii) closed-path work; (iv) limits at c=0.
Assemblies: fint = sum fint_p + k_conn c, kT = sum kT_p + k_conn, for SSycte / SSxcte / BFycte / SB connections.
"""
import itertools

import numpy as np

from .. import pan
from ..core import fail, seed_eps

RULE = ('one case = one element of the product (model, laminate, flags, orders, state, Gauss order, table form) or one assembly '
        'composition; non-trivial = state with non-zero out-of-plane amplitudes (non-linear part of kT non-zero)')
ASSUMPTIONS = ['reference uses numpy Gauss-Legendre points (package table checked in C10)',
               'finite-difference comparison: tolerance 2e-5 of max|kT - k0| + 1e-9 of max|kT| (central differences, step 1e-6 of the state scale)']
ORDS_Q = [(1, 1), (2, 2), (3, 2), (2, 4), (4, 4)]
ORDS_T = ORDS_Q + [(3, 3), (6, 2), (2, 6), (5, 5)]
STATES = ['zero', 'tiny', 'moderate', 'large', 'inplane', 'outplane']
GAUSS = ['exact', 'under', 'over']
FORMS = ['6x6', 'perpoint_same', 'perpoint_var']


def cases(tier, seed):
    out = []
    ords = ORDS_Q if tier == 'quick' else ORDS_T
    for model, lam, fb, (m, n), st, gq, form in itertools.product(['plate', 'cpanel'], ['general', 'cross_unsym', 'cross_sym'],
                                                                  ['SSSS', 'CCCC', 'FFFF', 'generic'], ords, STATES, GAUSS, FORMS):
        if form != '6x6' and (gq == 'over' or st in ('zero', 'tiny')):
            continue
        if tier == 'quick':
            if (m, n) == (4, 4) and (gq != 'exact' or lam != 'general' or st not in ('moderate', 'large') or form != '6x6'):
                continue
            if lam == 'cross_sym' or (fb in ('CCCC', 'generic') and lam != 'general'):
                continue
            if st == 'inplane' or gq == 'over' or form == 'perpoint_same':
                continue
            if form == 'perpoint_var' and ((m, n) not in [(2, 2), (3, 2)] or fb != 'SSSS'):
                continue
            if gq == 'under' and fb != 'SSSS':
                continue
        out.append(dict(kind='panel', model=model, lam=lam, fbase=fb, m=m, n=n, state=st, gq=gq, form=form, seed=seed))
        if lam == 'general' and form == '6x6' and gq == 'exact' and fb == 'SSSS' and (m, n) in [(2, 2), (3, 2)] and st in ('zero', 'tiny', 'moderate'):
            out.append(dict(kind='panel', model=model, lam=lam, fbase=fb, m=m, n=n, state=st, gq=gq, form=form, preload=1, seed=seed))
            if st == 'moderate':
                # the same Panel object evaluated first under another definition (side length / edge restraints), with the same pre-load
                for redef in ('a', 'b', 'flags', 'r'):
                    out.append(dict(kind='panel', model=model, lam=lam, fbase=fb, m=m, n=n, state=st, gq=gq, form=form, preload=1,
                                    redef=redef, seed=seed))
        if lam == 'general' and form == '6x6' and gq == 'exact' and fb == 'generic' and (m, n) in [(2, 2), (3, 2)]:
            out.append(dict(kind='panel', model=model, lam=lam, fbase=fb, m=m, n=n, state=st, gq=gq, form=form, ortho=1, seed=seed))
    # Gauss orders taken from the panel attributes nx, ny (not passed to the calls), different in the two directions
    for model, (m, n), st in itertools.product(['plate', 'cpanel'], [(3, 6), (6, 3)], ['moderate', 'large']):
        out.append(dict(kind='panel', model=model, lam='general', fbase='SSSS', m=m, n=n, state=st, gq='exact', form='6x6', via_attr=1, seed=seed))
    for conn, order, st, hist in itertools.product(['SSycte', 'SSxcte', 'BFycte', 'SB'], ['p1first', 'p2first'], ['moderate', 'large'],
                                                   ['plain', 'kT_nofinalize_first', 'k0_nofinalize_first']):
        out.append(dict(kind='assembly', conn=conn, order=order, state=st, hist=hist, seed=seed))
    return out


def make_state(ref, h, letter, seed):
    g = np.array([seed_eps(seed, 1300 + i) for i in range(ref.size)])
    c = np.zeros(ref.size)
    nd = ref.nd
    if letter == 'zero':
        pass
    elif letter == 'tiny':
        c = 1e-9 * h * g
    elif letter == 'moderate':
        c = 0.02 * h * g
        c[2::3] = 0.5 * h * g[2::3]
    elif letter == 'large':
        c = 0.1 * h * g
        c[2::3] = 3.0 * h * g[2::3]
    elif letter == 'inplane':
        c = 0.1 * h * g
        c[2::3] = 0.0
    elif letter == 'outplane':
        c[2::3] = 1.5 * h * g[2::3]
    return c * ref.active()


def gauss_orders(m, n, letter):
    dx, dy = max(3, m - 1), max(3, n - 1)
    ex, ey = 2 * dx + 1, 2 * dy + 1
    if letter == 'exact':
        return ex, ey
    if letter == 'under':
        return 2, 2
    return min(ex + 5, 64), min(ey + 4, 64)


def check_panel(case):
    seed = case['seed']
    cfg = dict(model=case['model'], a=0.6, b=0.4, r=1.2, lam=case['lam'], m=case['m'], n=case['n'], fbase=case['fbase'], seed=seed)
    p = pan.make_panel(cfg)
    ref, lam = pan.make_ref(cfg)
    ref = ref.base
    F, h = lam['ABD'], lam['h']
    if case.get('redef'):
        other = dict(cfg)
        other.update(dict(a=dict(a=0.75), b=dict(b=0.31), flags=dict(fbase='CCCC'), r=dict(r=2.0))[case['redef']])
        p = pan.make_panel(other)
        p.Nxx_cte, p.Nyy_cte, p.Nxy_cte = -2.0e3, 0.7e3, 0.4e3
        c_other = make_state(ref, h, 'moderate', seed + 1)
        p.calc_k0(silent=True)
        p.calc_fint(c_other.copy(), silent=True)
        p.calc_kT(c=c_other.copy(), silent=True)
        pan.retarget(p, cfg)
    if case.get('preload'):
        p.Nxx_cte, p.Nyy_cte, p.Nxy_cte = -2.0e3, 0.7e3, 0.4e3
    if case.get('ortho'):
        p.force_orthotropic_laminate = True
        F = F.copy()
        for (i, j) in ((0, 2), (1, 2), (0, 5), (1, 5), (3, 2), (4, 2), (3, 5), (4, 5)):
            F[i, j] = F[j, i] = 0.0
    nx, ny = gauss_orders(case['m'], case['n'], case['gq'])
    c = make_state(ref, h, case['state'], seed)
    if case['form'] == '6x6':
        Fin, Fref = None, F
    elif case['form'] == 'perpoint_same':
        Fin, Fref = np.ascontiguousarray(np.broadcast_to(F, (nx, ny, 6, 6))), F
    else:
        scale = 1.0 + 0.3 * np.sin(1.0 + np.arange(nx * ny)).reshape(nx, ny)
        Fin = np.ascontiguousarray(F[None, None, :, :] * scale[:, :, None, None])
        Fref = Fin.reshape(nx * ny, 6, 6)
    fails = []
    k0 = pan.dense(p.calc_k0(silent=True))
    k0r = ref.k0(F) + (ref.kG(-2.0e3, 0.7e3, 0.4e3) if case.get('preload') else 0.0)
    if np.abs(k0 - k0r).max() > 1e-10 * np.abs(k0r).max():
        fails.append(fail('linear stiffness differs from the strain-energy Hessian for the laminate used by the non-linear quantities', sig=None, case=case,
                          rel=float(np.abs(k0 - k0r).max() / np.abs(k0r).max())))
    kw = dict(nx=nx, ny=ny, silent=True)
    if case.get('via_attr'):
        p.nx, p.ny = nx, ny
        kw = dict(silent=True)
    if Fin is not None:
        kw['Fnxny'] = Fin

    def fint(cc):
        cin = np.array(cc)
        r = np.array(p.calc_fint(cin, **kw), dtype=float)
        if not np.array_equal(cin, cc):
            fails.append(fail('calc_fint modified the state vector', sig=None, case=case))
        return r
    f0 = fint(c)
    kT = pan.dense(p.calc_kT(c=c.copy(), **kw))
    execs = 3
    scK = np.abs(kT).max() + 1e-300
    act = ref.active()
    # symmetric
    if np.abs(kT - kT.T).max() > 1e-12 * scK:
        fails.append(fail('tangent stiffness not symmetric', sig=None, case=case, asym=float(np.abs(kT - kT.T).max() / scK)))
    # reference gradient / Hessian at the same quadrature points
    fr = ref.fint(c, Fref, nx, ny)
    KTr = ref.kT(c, Fref, nx, ny)[0]
    if case.get('preload'):
        KGc = ref.kG(-2.0e3, 0.7e3, 0.4e3)
        fr = fr + KGc.dot(c)
        KTr = KTr + KGc
    scf = np.abs(KTr).dot(np.abs(c)).max() + 1e-300
    if np.abs(f0 - fr).max() > 1e-9 * scf:
        fails.append(fail('internal force differs from the gradient of the strain energy', sig=None, case=case, nx=nx, ny=ny,
                          rel=float(np.abs(f0 - fr).max() / scf)))
    if np.abs(kT - KTr).max() > 1e-9 * scK:
        fails.append(fail('tangent stiffness differs from the Hessian of the strain energy', sig=None, case=case, nx=nx, ny=ny,
                          rel=float(np.abs(kT - KTr).max() / scK)))
    # limits
    if case['state'] == 'zero':
        if np.abs(f0).max() != 0:
            fails.append(fail('internal force of the undeformed state is not zero', sig=None, case=case))
        if case['form'] != 'perpoint_var' and case['gq'] != 'under' and np.abs(kT - k0).max() > 1e-9 * scK:
            fails.append(fail('tangent at the undeformed state is not the linear stiffness', sig=None, case=case,
                              rel=float(np.abs(kT - k0).max() / scK)))
    if case['state'] == 'tiny' and case['gq'] != 'under':
        lin = k0.dot(c)
        if np.abs(f0 - lin).max() > 1e-6 * (np.abs(k0).dot(np.abs(c)).max() + 1e-300):
            fails.append(fail('internal force of an infinitesimal state is not K0*c', sig=None, case=case))
    # finite-difference Jacobian of the package's own fint along a complete basis
    if case['state'] not in ('zero', 'tiny'):
        nlpart = np.abs(kT - pan.dense(p.calc_kT(c=np.zeros_like(c), **kw))).max()
        execs += 1
        idx = np.where(act)[0]
        if len(idx) > 30:
            idx = idx[::max(1, len(idx) // 30)]
        step = 1e-6 * max(np.abs(c).max(), 1e-12)
        worst = 0.0
        for k in idx:
            e = np.zeros_like(c); e[k] = step
            col = (fint(c + e) - fint(c - e)) / (2 * step)
            execs += 2
            err = np.abs(col - kT[:, k]).max()
            worst = max(worst, err)
            if err > 2e-5 * nlpart + 1e-9 * scK:
                fails.append(fail('tangent stiffness is not the derivative of the internal force', sig=None, case=case, direction=int(k),
                                  err=float(err), nonlinear_part=float(nlpart), kT_scale=float(scK)))
                break
        # closed path 0 -> c -> c2 -> 0 : work of the internal forces vanishes
        c2 = make_state(ref, h, 'moderate', seed + 17)[::-1].copy() * act
        tg, wg = np.polynomial.legendre.leggauss(6)
        tg, wg = 0.5 * (tg + 1), 0.5 * wg
        work, sc_work = 0.0, 0.0
        for (ca, cb) in ((np.zeros_like(c), c), (c, c2), (c2, np.zeros_like(c))):
            for t, w in zip(tg, wg):
                fv = fint(ca + t * (cb - ca))
                execs += 1
                work += w * fv.dot(cb - ca)
                sc_work += w * np.abs(fv).dot(np.abs(cb - ca))
        if abs(work) > 1e-9 * sc_work:
            fails.append(fail('work of the internal forces around a closed path is not zero', sig=None, case=case, work=float(work),
                              scale=float(sc_work)))
    nontriv = int(np.abs(c[2::3]).max() > 0) if c.size else 0
    return dict(fails=fails[:6], execs=execs, transitions=execs, nontrivial=nontriv)


def check_assembly(case):
    from compmech.panel.assembly import PanelAssembly
    seed = case['seed']
    fails = []
    kind = case['conn']
    if kind in ('SSycte', 'SB'):
        cfg1 = dict(model='plate', a=0.6, b=0.25, lam='cross_sym', m=3, n=3, fbase='SSSS', seed=seed)
        cfg2 = dict(model='plate', a=0.6, b=0.15 if kind == 'SSycte' else 0.25, lam='general', m=4, n=3, fbase='SSSS', seed=seed)
    elif kind == 'SSxcte':
        cfg1 = dict(model='plate', a=0.3, b=0.4, lam='cross_sym', m=3, n=3, fbase='SSSS', seed=seed)
        cfg2 = dict(model='plate', a=0.2, b=0.4, lam='general', m=3, n=4, fbase='SSSS', seed=seed)
    else:   # BFycte: base and perpendicular flange
        cfg1 = dict(model='plate', a=0.6, b=0.25, lam='cross_sym', m=3, n=3, fbase='SSSS', seed=seed)
        cfg2 = dict(model='plate', a=0.6, b=0.05, lam='cross_unsym', m=3, n=3, fbase='SSSS', seed=seed)
    p1, p2 = pan.make_panel(cfg1), pan.make_panel(cfg2)
    for p in (p1, p2):
        for f in ('u2ty', 'v2ty', 'w2ty', 'w2ry', 'u2tx', 'v2tx', 'w2tx', 'w2rx'):
            setattr(p, f, 1.0)
        p.nx, p.ny = 7, 7
    if kind == 'SSycte':
        conn = dict(p1=p1, p2=p2, func='SSycte', ycte1=p1.b, ycte2=0.)
    elif kind == 'SSxcte':
        conn = dict(p1=p1, p2=p2, func='SSxcte', xcte1=p1.a, xcte2=0.)
    elif kind == 'BFycte':
        conn = dict(p1=p1, p2=p2, func='BFycte', ycte1=0.1, ycte2=0.)
    else:
        conn = dict(p1=p1, p2=p2, func='SB')
    panels = [p1, p2] if case['order'] == 'p1first' else [p2, p1]
    assy = PanelAssembly(panels, [conn])
    size = assy.get_size()
    h = sum(p1.plyts) if p1.plyts else pan.PLYT * 4
    g = np.array([seed_eps(seed, 1500 + i) for i in range(size)])
    c = 0.02 * h * g
    c[2::3] = (0.5 if case['state'] == 'moderate' else 3.0) * h * g[2::3]
    cin = c.copy()
    # call history letter: an un-finalised evaluation first (as an enclosing assembly loop would request)
    if case.get('hist') == 'kT_nofinalize_first':
        assy.calc_kT(c=c.copy(), silent=True, finalize=False)
    elif case.get('hist') == 'k0_nofinalize_first':
        assy.calc_k0(silent=True, finalize=False)
    f = np.asarray(assy.calc_fint(cin, silent=True), dtype=float)
    kT = pan.dense(assy.calc_kT(c=cin, silent=True))
    kc = pan.dense(assy.get_k0_conn())
    execs = 3
    if not np.array_equal(cin, c):
        fails.append(fail('assembly calc_fint/calc_kT modified the state vector', sig=None, case=case))
    fsum = np.zeros(size)
    ksum = np.zeros((size, size))
    for p in panels:
        fsum += np.asarray(p.calc_fint(c.copy(), size=size, col0=p.col_start, silent=True), dtype=float)
        ksum += pan.dense(p.calc_kT(c=c.copy(), size=size, row0=p.row_start, col0=p.col_start, silent=True))
        execs += 2
    scf = np.abs(fsum).max() + np.abs(kc).dot(np.abs(c)).max() + 1e-300
    if np.abs(f - (fsum + kc.dot(c))).max() > 1e-10 * scf:
        fails.append(fail('assembly internal force is not the sum of the panels plus the connection force', sig=None, case=case,
                          rel=float(np.abs(f - (fsum + kc.dot(c))).max() / scf)))
    scK = np.abs(ksum).max() + np.abs(kc).max()
    if np.abs(kT - (ksum + kc)).max() > 1e-10 * scK:
        fails.append(fail('assembly tangent is not the sum of the panel tangents plus the connection matrix', sig=None, case=case,
                          rel=float(np.abs(kT - (ksum + kc)).max() / scK)))
    if np.abs(kT - kT.T).max() > 1e-12 * scK:
        fails.append(fail('assembly tangent not symmetric', sig=None, case=case))
    # finite differences of the assembly internal force
    kT0 = pan.dense(assy.calc_kT(c=np.zeros(size), silent=True))
    nlpart = np.abs(kT - kT0).max()
    step = 1e-6 * np.abs(c).max()
    for k in range(0, size, max(1, size // 16)):
        e = np.zeros(size); e[k] = step
        col = (np.asarray(assy.calc_fint(c + e, silent=True), dtype=float) - np.asarray(assy.calc_fint(c - e, silent=True), dtype=float)) / (2 * step)
        execs += 2
        if np.abs(col - kT[:, k]).max() > 2e-5 * nlpart + 1e-9 * scK:
            fails.append(fail('assembly tangent is not the derivative of the assembly internal force', sig=None, case=case, direction=k,
                              err=float(np.abs(col - kT[:, k]).max()), nonlinear_part=float(nlpart)))
            break
    if np.abs(np.asarray(assy.calc_fint(np.zeros(size), silent=True), dtype=float)).max() != 0:
        fails.append(fail('assembly internal force of the undeformed state is not zero', sig=None, case=case))
    return dict(fails=fails[:6], execs=execs, transitions=execs, nontrivial=1)


def check_case(case):
    return check_panel(case) if case['kind'] == 'panel' else check_assembly(case)
