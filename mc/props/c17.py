"""C17 - cone/cylinder non-linear tangent = Jacobian of the internal force.

Full product: every anchored model that advertises non-linear static analysis x {cylinder, cone 20 deg} x series orders x
state letter x integration rule x grid letter x thread count x imperfection letter.  Oracle: central finite differences
of the package's own calc_fint along a COMPLETE basis of the free amplitudes (tolerance tied to the non-linear part of
the tangent), symmetry, fint(0)=0, fint(eps c)/eps -> k0uu c, independence of the number of integration threads.
"""
import itertools

import numpy as np

from ..core import fail, seed_eps
from ..ref import shell as rs
from .c16 import ANCHORED

RULE = 'one case = one (model, angle, orders, state, rule, grid, threads, imperfection); non-trivial = state with non-zero out-of-plane amplitudes'
ASSUMPTIONS = ['finite-difference tolerance 1e-4 of max|kT - k0uu| + 1e-9 of max|kT| (central differences, relative step 1e-6)',
               'thread-count independence demanded to 1e-11 relative (summation order changes)']
KERNEL_FINDINGS = {m: 'C17:%s-nonlinear-tangent-is-not-the-jacobian-of-fint' % m
                   for m in ('fsdt_donnell_bc1', 'fsdt_donnell_bcn', 'clpt_sanders_bc2', 'clpt_sanders_bc3')}


def layer_matches_kernels(cc, c, kT, f0):
    """Explained-by gate for kernel findings: the Python layer must equal the documented composition of direct kernel calls
    kT = k0 + k0L + k0L^T + kLL + kG (prescribed amplitudes removed), fint = kernel fint + k0 c."""
    from compmech.conecyl import modelDB
    from compmech.sparse import make_symmetric
    md = modelDB.db[cc.model[4:] if cc.model.startswith('iso_') else cc.model]
    nl = modelDB.db[cc.model]['non-linear']
    cf = cc.calc_full_c(c.copy())
    a = (cc.E11, cc.nu, cc.h) if cc.model.startswith('iso_') else (cc.F,)
    kw = dict(nx=cc.nx, nt=cc.nt, num_cores=1, method=cc.ni_method, c0=cc.c0, m0=cc.m0, n0=cc.n0)
    kG = make_symmetric(md['non-linear'].calc_kG(cf, cc.alpharad, cc.r2, cc.L, cc.tLArad, cc.F, cc.m1, cc.m2, cc.n2, **kw)).toarray()
    k0L = nl.calc_k0L(cf, cc.alpharad, cc.r2, cc.L, cc.tLArad, *a, cc.m1, cc.m2, cc.n2, **kw).toarray()
    kLL = make_symmetric(nl.calc_kLL(cf, cc.alpharad, cc.r2, cc.L, cc.tLArad, *a, cc.m1, cc.m2, cc.n2, **kw)).toarray()
    K = cc.k0.toarray() + k0L + k0L.T + kLL + kG
    K = np.delete(np.delete(K, cc.excluded_dofs, 0), cc.excluded_dofs, 1)
    f = np.asarray(md['non-linear'].calc_fint_0L_L0_LL(cf, cc.alpharad, cc.r2, cc.L, cc.tLArad, cc.F, cc.m1, cc.m2, cc.n2, cc.nx, cc.nt, 1,
                                                       cc.ni_method, cc.c0, cc.m0, cc.n0), dtype=float) + cc.k0.dot(cf)
    f = np.delete(f, cc.excluded_dofs)
    return np.abs(K - kT).max() <= 1e-10 * np.abs(kT).max() and np.abs(f - f0).max() <= 1e-10 * (np.abs(f0).max() + 1e-300)


def nl_models():
    from compmech.conecyl import modelDB
    return [m for m in ANCHORED if m in modelDB.db and modelDB.db[m].get('non-linear static') and modelDB.db[m].get('non-linear') is not None]


def cases(tier, seed):
    out = []
    for model, alpha, ords, st, rule, grid, cores, imp in itertools.product(
            nl_models(), [0., 20.], [(1, 1, 1), (2, 1, 2), (2, 2, 2)], ['zero', 'tiny', 'h', '3h'], ['trapz2d', 'simps2d'],
            ['g24', 'g40', 'g8x40'], [1, 2, 3, 8], [0, 1]):
        if grid == 'g8x40' and (st not in ('h', '3h') or ords == (1, 1, 1) or (tier == 'quick' and (rule != 'trapz2d' or cores != 1 or imp))):
            continue
        if tier == 'quick':
            if cores != 1 and (st != 'h' or ords != (2, 1, 2) or grid != 'g24' or imp):
                continue
            if grid == 'g40' and (st != '3h' or ords != (2, 1, 2) or rule != 'trapz2d'):
                continue
            if imp and (st not in ('h', 'zero') or ords != (2, 1, 2)):
                continue
            if ords == (2, 2, 2) and (st != 'h' or rule != 'trapz2d'):
                continue
            if ords == (1, 1, 1) and st == '3h':
                continue
        out.append(dict(model=model, alpha=alpha, ords=list(ords), state=st, rule=rule, grid=grid, cores=cores, imp=imp, seed=seed))
    # prescribed end rotation / shortening: the tangent must follow the load level on a re-used object
    for model, alpha, presc in itertools.product([m for m in nl_models() if m not in KERNEL_FINDINGS], [0., 20.],
                                                 ['twist', 'twist+shortening', 'shortening', 'twist+asymmetry']):
        out.append(dict(model=model, alpha=alpha, ords=[2, 1, 2], state='h', rule='trapz2d', grid='g24', cores=1, imp=0, presc=presc, seed=seed))
        if presc not in ('shortening', 'twist+asymmetry'):
            # the state handed over as a COMPLETE amplitude vector (prescribed entries included) at load factors other than 1
            out.append(dict(model=model, alpha=alpha, ords=[2, 1, 2], state='h', rule='trapz2d', grid='g24', cores=1, imp=0, presc=presc, full=1, seed=seed))
    # isotropic short-cut models: wall data changed on the same object after a first evaluation
    for model, alpha, redef in itertools.product([m for m in nl_models() if m.startswith('iso_')], [0., 20.], ['h', 'E11', 'nu']):
        out.append(dict(model=model, alpha=alpha, ords=[2, 1, 2], state='h', rule='trapz2d', grid='g24', cores=1, imp=0, redef=redef, seed=seed))
    return out


def build(case, cores=None):
    m1, m2, n2 = case['ords']
    # 'g8x40': fewer points along the meridian than around the circumference (8 points would alias the 4*n2 harmonics)
    nx_, nt_ = {'g24': (24, 24), 'g40': (40, 40), 'g8x40': (8, 40)}[case['grid']]
    cfg = dict(model=case['model'], alphadeg=case['alpha'], m1=m1, m2=m2, n2=n2, s=40, nx=nx_, nt=nt_, ni_method=case['rule'],
               ni_num_cores=cores or case['cores'], stack=[30., -60., 17.3] if 'iso' not in case['model'] else [])
    if case.get('presc'):
        if 'twist' in case['presc']:
            cfg.update(pdT=True, thetaTdeg=0.15)
        else:
            cfg.update(pdT=False)                      # twist amplitude free, shortening prescribed: non-contiguous prescribed set
        if 'shortening' in case['presc']:
            cfg.update(pdC=True, uTM=1.0e-4)
        if 'asymmetry' in case['presc']:              # prescribed load-asymmetry amplitude at a circumferential position other than 0
            cfg.update(betadeg=0.02, tLAdeg=35.0)
    cc = rs.shell_of(cfg)
    if case['imp']:
        # one term of the half-cosine imperfection series
        cc.m0, cc.n0, cc.funcnum = 2, 3, 2          # different axial / circumferential term counts
        c0 = np.zeros(2 * 2 * 3)
        c0[3] = 0.3e-3
        c0[8] = -0.2e-3
        cc.c0 = c0
    return cc


def check_case(case):
    seed = case['seed']
    fails = []
    cc = build(case)
    if case.get('redef'):
        # first evaluation with other wall data, then the definition is changed on the same object
        target = dict(h=cc.h, E11=cc.E11, nu=cc.nu)
        setattr(cc, case['redef'], dict(h=1.6e-3, E11=40.0e9, nu=0.2)[case['redef']])
        n0 = cc.calc_k0(silent=True).shape[0]
        c_first = 0.5e-3 * np.array([seed_eps(seed, 3500 + i) for i in range(n0)])
        cc.calc_fint(c_first.copy(), silent=True)
        cc.calc_kT(c_first.copy(), silent=True)
        for k_, v_ in target.items():
            setattr(cc, k_, v_)
        cc._calc_linear_matrices(silent=True)          # (the linear matrices are recomputed explicitly: their caching is C20's finding)
    k0uu = cc.calc_k0(silent=True).toarray()
    n = k0uu.shape[0]
    h = 0.375e-3 if 'iso' not in case['model'] else 1.0e-3
    g = np.array([seed_eps(seed, 3000 + i) for i in range(n)])
    amp = dict(zero=0.0, tiny=1e-8 * h, h=h, **{'3h': 3 * h})[case['state']]
    c = amp * g
    incs = [1.0, 0.4] if case.get('presc') else [1.0]
    execs = 0
    if case.get('full'):
        # complete vectors: free amplitudes from c, prescribed ones at their full-load values (scaled by the load factor inside)
        free_idx = np.array([i for i in range(cc.get_size()) if i not in list(cc.excluded_dofs)])
        def to_full(cu):
            return np.asarray(cc.calc_full_c(np.array(cu), inc=1.0), dtype=float)

        orig_fint, orig_kT = cc.calc_fint, cc.calc_kT

        def fint_full(cu, inc=1., silent=True):
            cf = to_full(cu)
            keep = cf.copy()
            r = orig_fint(cf, inc=inc, silent=silent)
            if not np.array_equal(cf, keep):
                fails.append(fail('calc_fint modified the complete amplitude vector supplied by the caller', sig=None, case=case, load_factor=inc))
            return r

        def kT_full(cu, inc=1., silent=True):
            cf = to_full(cu)
            keep = cf.copy()
            r = orig_kT(cf, inc=inc, silent=silent)
            if not np.array_equal(cf, keep):
                fails.append(fail('calc_kT modified the complete amplitude vector supplied by the caller', sig=None, case=case, load_factor=inc))
            return r
        call_fint, call_kT = fint_full, kT_full
    else:
        call_fint = lambda cu, inc=1., silent=True: cc.calc_fint(cu, inc=inc, silent=silent)
        call_kT = lambda cu, inc=1., silent=True: cc.calc_kT(cu, inc=inc, silent=silent)
    for inc in incs:
        cin = c.copy()
        f0 = np.asarray(call_fint(cin, inc=inc, silent=True), dtype=float)
        kT = call_kT(cin, inc=inc, silent=True).toarray()
        execs += 2
        if not np.array_equal(cin, c):
            fails.append(fail('calc_fint/calc_kT modified the state vector', sig=None, case=case))
        sc = np.abs(kT).max()
        if np.abs(kT - kT.T).max() > 1e-11 * sc:
            fails.append(fail('tangent stiffness not symmetric', sig=None, case=case, asym=float(np.abs(kT - kT.T).max() / sc)))
        if case['state'] == 'zero' and not case['imp'] and not case.get('presc'):
            if np.abs(f0).max() > 1e-12 * np.abs(k0uu).max() * h:
                fails.append(fail('internal force of the undeformed perfect shell is not zero', sig=None, case=case, fmax=float(np.abs(f0).max())))
            if np.abs(kT - k0uu).max() > 1e-11 * sc:
                fails.append(fail('tangent of the undeformed perfect shell is not the linear stiffness', sig=None, case=case))
        if case['state'] == 'tiny' and not case['imp'] and not case.get('presc'):
            lin = k0uu.dot(c)
            if np.abs(f0 - lin).max() > 1e-6 * (np.abs(k0uu).dot(np.abs(c)).max() + 1e-300):
                fails.append(fail('internal force for vanishing amplitudes is not the linear stiffness times the amplitudes', sig=None, case=case))
        if case['state'] in ('h', '3h') or (case['imp'] and case['state'] in ('zero', 'tiny')):
            # with an initial imperfection the tangent of the unloaded shell already contains the imperfection terms
            nl = np.abs(kT - k0uu).max()
            step = 1e-6 * max(np.abs(c).max(), h)
            for k in range(n):
                e = np.zeros(n); e[k] = step
                col = (np.asarray(call_fint(c + e, inc=inc, silent=True), dtype=float) -
                       np.asarray(call_fint(c - e, inc=inc, silent=True), dtype=float)) / (2 * step)
                execs += 2
                err = np.abs(col - kT[:, k]).max()
                if err > 1e-4 * nl + 1e-9 * sc + (1e-6 * sc if case['state'] in ('zero', 'tiny') else 0.0):
                    sig = KERNEL_FINDINGS.get(case['model'])
                    if sig and not layer_matches_kernels(cc, c, kT, f0):
                        sig = None
                    fails.append(fail('tangent stiffness is not the derivative of the internal force' +
                                      (' (explained by the non-linear kernels of this model: Python layer verified against direct kernel calls)' if sig else ''),
                                      sig=sig, case=case, direction=k, load_factor=inc, err=float(err), nonlinear_part=float(nl), kT_scale=float(sc)))
                    break
    # thread-count edge
    if case['cores'] != 1:
        c1 = build(case, cores=1)
        c1.calc_k0(silent=True)
        f1 = np.asarray(c1.calc_fint(c.copy(), silent=True), dtype=float)
        k1 = c1.calc_kT(c.copy(), silent=True).toarray()
        execs += 2
        if np.abs(f1 - f0).max() > 1e-11 * (np.abs(f1).max() + 1e-300) or np.abs(k1 - kT).max() > 1e-11 * sc:
            fails.append(fail('internal force / tangent depend on the number of integration threads', sig=None, case=case,
                              df=float(np.abs(f1 - f0).max() / (np.abs(f1).max() + 1e-300)), dk=float(np.abs(k1 - kT).max() / sc)))
    return dict(fails=fails[:4], execs=execs, transitions=execs, nontrivial=int(case['state'] in ('h', '3h')))


def summarize(results, tier, seed):
    return dict(models=nl_models())
