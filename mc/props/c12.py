"""C12 - penalty connection matrices are the Hessian of the interface mismatch energy.

Full product: connection kind x interface position letters x panel-pair letters (equal / different orders / different
size / different flags / different laminates) x (kt,kr) route (derived from laminates, explicit letters through the
kernels) x order in the global vector {p1 first, p2 first} x extra leading panel.  Oracle: mc/ref/connections.py.
"""
import itertools

import numpy as np

from .. import pan
from ..core import fail, seed_eps
from ..ref import connections as rc, laminate as rl

RULE = ('one case = one element of the product (kind, positions, pair letter, order, leading panel); non-trivial = all (the reference '
        'matrix has non-zero 11, 12 and 22 blocks)')
ASSUMPTIONS = ['reference integrates with 24 Gauss points (exact for the series orders used, <= 8)', 'tolerance 1e-10 of max|K_conn|']
SIG_ORDER = 'C12:12-block-lost-when-p1-follows-p2'
SIG_KT = 'C12:bot-top-kt-uses-first-panel-size-only'
KINDS = ['SSycte', 'SSxcte', 'BFycte', 'BFxcte', 'SB']
PAIRS = ['equal', 'orders', 'size', 'flags', 'lam', 'plyts']


def build_pair(kind, pair, pos, seed):
    a1, b1 = 0.6, 0.4
    lam1, lam2 = 'cross_sym', 'cross_sym'
    m1, n1, m2, n2 = 4, 4, 4, 4
    fb1 = fb2 = 'FFFF'
    a2, b2 = a1, b1
    if kind in ('BFycte',):
        b2 = 0.07
    if kind in ('BFxcte',):
        a2 = 0.07
    if pair == 'orders':
        m1, n1, m2, n2 = 3, 5, 6, 4
    if pair == 'size':
        if kind in ('SSycte', 'BFycte'):
            b2 = 0.25 if kind == 'SSycte' else 0.11
        elif kind in ('SSxcte', 'BFxcte'):
            a2 = 0.35 if kind == 'SSxcte' else 0.11
        else:
            pass      # SB needs identical domains
    if pair == 'flags':
        fb1, fb2 = 'generic', 'SSSS'
    if pair == 'lam':
        lam1, lam2 = 'general', 'cross_unsym'
    cfg1 = dict(model='plate', a=a1, b=b1, lam=lam1, m=m1, n=n1, fbase=fb1, seed=seed)
    cfg2 = dict(model='plate', a=a2, b=b2, lam=lam2, m=m2, n=n2, fbase=fb2, seed=seed + 1)
    p1, p2 = pan.make_panel(cfg1), pan.make_panel(cfg2)
    if pair == 'plyts':      # explicit non-uniform ply thicknesses next to the scalar one (the list is what defines the laminate)
        p1.plyts = [pan.PLYT * (1 + 3 * (i % 2)) for i in range(len(p1.stack))]
        p2.plyts = [pan.PLYT * (2 - 0.5 * (i % 2)) for i in range(len(p2.stack))]
    frac1, frac2 = pos
    if kind in ('SSycte', 'BFycte'):
        c = dict(p1=p1, p2=p2, func=kind, ycte1=frac1 * b1, ycte2=frac2 * b2)
        pos1, pos2 = frac1 * b1, frac2 * b2
    elif kind in ('SSxcte', 'BFxcte'):
        c = dict(p1=p1, p2=p2, func=kind, xcte1=frac1 * a1, xcte2=frac2 * a2)
        pos1, pos2 = frac1 * a1, frac2 * a2
    else:
        c = dict(p1=p1, p2=p2, func='SB')
        pos1 = pos2 = None
    return p1, p2, cfg1, cfg2, c, pos1, pos2


def cases(tier, seed):
    out = []
    positions = [(1.0, 0.0), (0.0, 1.0), (0.37, 0.0), (1.0, 0.6)]
    for kind, pair, pos, order, lead in itertools.product(KINDS, PAIRS, positions, ['p1first', 'p2first'], [0, 1]):
        if kind == 'SB' and (pair == 'size' or pos != positions[0]):
            continue
        if tier == 'quick' and lead == 1 and pair not in ('equal', 'orders'):
            continue
        out.append(dict(kind='conn', conn=kind, pair=pair, pos=list(pos), order=order, lead=lead, seed=seed))
    for ctype, pair in itertools.product(['xcte', 'ycte', 'bot-top', 'xcte-ycte', 'ycte-xcte'], ['equal', 'lam', 'size']):
        out.append(dict(kind='ktkr', ctype=ctype, pair=pair, seed=seed))
    # connection lists built internally by the 2D stiffeners (interface positions, offsets, constants)
    for curved, ecb, ecf, widths in itertools.product([0, 1], [0.0, -0.5], [-1.0, 1.0, 0.5], [(0.10, 0.03), (0.04, 0.06)]):
        out.append(dict(kind='tstiff', curved=curved, eta_conn_base=ecb, eta_conn_flange=ecf, bb=widths[0], bf=widths[1], seed=seed))
    for curved, ysf, bf, ffl in itertools.product([0, 1], [0.2, 0.5, 0.8], [0.03, 0.06], ['default', 'u_free', 'mixed', 'generic']):
        if ffl != 'default' and (ysf != 0.5 or bf != 0.03):
            continue
        out.append(dict(kind='b2d', curved=curved, ysf=ysf, bf=bf, fflags=ffl, seed=seed))
    # several connections in one assembly, two of them on the same line of the same panel with different partner laminates
    for kind, order in itertools.product(['SSycte', 'SSxcte', 'BFycte', 'BFxcte'], ['abc', 'acb', 'cab']):
        out.append(dict(kind='multi', conn=kind, order=order, seed=seed))
    return out


def check_multi(case):
    """k0_conn of an assembly with two connections == sum of the matrices of assemblies with one connection each (same panels, same order);
    independent of the order of the connection list."""
    from compmech.panel.assembly import PanelAssembly
    seed = case['seed']
    kind = case['conn']

    def build(which, reverse=False):
        y = kind.endswith('ycte')
        pa = pan.make_panel(dict(model='plate', a=0.6, b=0.4, lam='cross_sym', m=4, n=4, fbase='FFFF', seed=seed))
        dims = dict(a=0.6, b=0.07) if y else dict(a=0.07, b=0.4)
        if kind.startswith('SS'):
            dims = dict(a=0.6, b=0.25) if y else dict(a=0.35, b=0.4)
        pb = pan.make_panel(dict(model='plate', lam='general', m=3, n=4, fbase='FFFF', seed=seed + 1, **dims))
        pc = pan.make_panel(dict(model='plate', lam='uni0', m=4, n=3, fbase='FFFF', seed=seed + 2, **dims))
        pos1 = 0.5 * (pa.b if y else pa.a)
        k1, k2 = ('ycte1', 'ycte2') if y else ('xcte1', 'xcte2')
        cb = {'p1': pa, 'p2': pb, 'func': kind, k1: pos1, k2: 0.}
        cc_ = {'p1': pa, 'p2': pc, 'func': kind, k1: pos1, k2: 0.}
        conn = [c for c, use in ((cb, 'b' in which), (cc_, 'c' in which)) if use]
        if reverse:
            conn = conn[::-1]
        ps = dict(a=pa, b=pb, c=pc)
        assy = PanelAssembly([ps[ch] for ch in case['order']], conn)
        return pan.dense(assy.get_k0_conn())
    Kbc, Kcb, Kb, Kc = build('bc'), build('bc', reverse=True), build('b'), build('c')
    fails = []
    sc = np.abs(Kb + Kc).max()
    if np.abs(Kbc - (Kb + Kc)).max() > 1e-12 * sc:
        fails.append(fail('connection matrix of two connections on the same line of one panel is not the sum of the two connection matrices', sig=None,
                          case=case, rel=float(np.abs(Kbc - (Kb + Kc)).max() / sc)))
    if np.abs(Kbc - Kcb).max() > 1e-12 * sc:
        fails.append(fail('connection matrix depends on the order of the connection list', sig=None, case=case, rel=float(np.abs(Kbc - Kcb).max() / sc)))
    return dict(fails=fails, execs=4, transitions=4, nontrivial=1)


def check_conn(case):
    from compmech.panel.assembly import PanelAssembly
    import compmech.panel.connections as connections
    seed = case['seed']
    p1, p2, cfg1, cfg2, conn, pos1, pos2 = build_pair(case['conn'], case['pair'], case['pos'], seed)
    panels = [p1, p2] if case['order'] == 'p1first' else [p2, p1]
    if case['lead']:
        lead = pan.make_panel(dict(model='plate', a=0.5, b=0.5, lam='uni0', m=2, n=3, fbase='SSSS', seed=seed))
        panels = [lead] + panels
    assy = PanelAssembly(panels, [conn])
    size = assy.get_size()
    K = pan.dense(assy.get_k0_conn())
    fails = []
    ref1, lam1 = pan.make_ref(cfg1)
    ref2, lam2 = pan.make_ref(cfg2)
    ref1, ref2 = ref1.base, ref2.base
    ctype = {'SSycte': 'ycte', 'BFycte': 'ycte', 'SSxcte': 'xcte', 'BFxcte': 'xcte', 'SB': 'bot-top'}[case['conn']]
    kt, kr = connections.calc_kt_kr(p1, p2, ctype)
    dsb = lam1['h'] / 2 + lam2['h'] / 2
    if case['pair'] == 'plyts':
        dsb = sum(p1.plyts) / 2 + sum(p2.plyts) / 2
        if abs(p1.lam.t - sum(p1.plyts)) > 1e-15 or abs(p2.lam.t - sum(p2.plyts)) > 1e-15:
            fails.append(fail('laminate thickness of a panel with explicit ply thicknesses is not their sum', sig=None, case=case))
    K11, K12, K22 = rc.conn_hessian(case['conn'], ref1, ref2, kt, kr if kr is not None else 0.0, pos1, pos2, dsb=dsb)
    Kr = np.zeros((size, size))
    r1, r2 = p1.row_start, p2.row_start
    Kr[r1:r1 + ref1.size, r1:r1 + ref1.size] += K11
    Kr[r2:r2 + ref2.size, r2:r2 + ref2.size] += K22
    Kr[r1:r1 + ref1.size, r2:r2 + ref2.size] += K12
    Kr[r2:r2 + ref2.size, r1:r1 + ref1.size] += K12.T
    sc = np.abs(Kr).max()
    if (r1, r2) != (sum(3 * q.m * q.n for q in panels[:panels.index(p1)]), sum(3 * q.m * q.n for q in panels[:panels.index(p2)])):
        fails.append(fail('panel offsets in the global vector are not the cumulative sizes', sig=None, case=case))
    if np.abs(K - Kr).max() > 1e-10 * sc:
        sig = None
        Kw = Kr.copy()
        if r1 > r2:       # explained-by: coupling block placed below the diagonal is discarded by the symmetrisation
            Kw[r1:r1 + ref1.size, r2:r2 + ref2.size] = 0
            Kw[r2:r2 + ref2.size, r1:r1 + ref1.size] = 0
            if np.abs(K - Kw).max() <= 1e-10 * sc:
                sig = SIG_ORDER
        idx = np.unravel_index(np.argmax(np.abs(K - Kr)), K.shape)
        fails.append(fail('connection matrix differs from the Hessian of the interface mismatch energy' +
                          (' (explained by the p1-p2 coupling block being lost when p1 follows p2 in the global vector)' if sig else ''),
                          sig=sig, case=case, index=[int(i) for i in idx], got=float(K[idx]), expected=float(Kr[idx])))
    if np.abs(K - K.T).max() > 0:
        fails.append(fail('connection matrix not symmetric', sig=None, case=case))
    elif not fails:
        w = np.linalg.eigvalsh(K)
        if w.min() < -1e-9 * sc:
            fails.append(fail('connection matrix not positive semi-definite', sig=None, case=case, min_eig=float(w.min())))
    # proportionality to the penalty constants through the kernels (explicit kt, kr letters), reference self-consistent
    execs = 1
    if not fails and case['lead'] == 0 and case['order'] == 'p1first':
        mod = getattr(connections, 'kC' + case['conn'] if case['conn'] != 'SB' else 'kCSB')
        for (kt2, kr2) in ((1.0, 0.0), (0.0, 1.0), (3.3e5, 7.1)):
            if case['conn'] == 'SB':
                if kr2 != 0.0 and kt2 == 0.0:
                    continue
                k11 = pan.dense(mod.fkCSB11(kt2, dsb, p1, size, r1, col0=r1))
                k12 = pan.dense(mod.fkCSB12(kt2, dsb, p1, p2, size, r1, col0=r2))
                k22 = pan.dense(mod.fkCSB22(kt2, p1, p2, size, r2, col0=r2))
            else:
                nm = case['conn']
                a1 = conn.get('ycte1', conn.get('xcte1'))
                a2 = conn.get('ycte2', conn.get('xcte2'))
                k11 = pan.dense(getattr(mod, 'fkC%s11' % nm)(kt2, kr2, p1, a1, size, r1, col0=r1))
                k12 = pan.dense(getattr(mod, 'fkC%s12' % nm)(kt2, kr2, p1, p2, a1, a2, size, r1, col0=r2))
                k22 = pan.dense(getattr(mod, 'fkC%s22' % nm)(kt2, kr2, p1, p2, a2, size, r2, col0=r2))
            execs += 3
            R11, R12, R22 = rc.conn_hessian(case['conn'], ref1, ref2, kt2, kr2, pos1, pos2, dsb=dsb)
            got = np.triu(k11 + k12 + k22)
            exp = np.zeros((size, size))
            exp[r1:r1 + ref1.size, r1:r1 + ref1.size] += R11
            exp[r2:r2 + ref2.size, r2:r2 + ref2.size] += R22
            exp[r1:r1 + ref1.size, r2:r2 + ref2.size] += R12
            exp = np.triu(exp)
            if np.abs(got - exp).max() > 1e-10 * (np.abs(exp).max() + 1e-300):
                fails.append(fail('connection kernels are not proportional to the penalty constants as the mismatch energy prescribes',
                                  sig=None, case=case, kt=kt2, kr=kr2))
                break
    # zero energy for fields continuous across the interface: rigid translations (all flags must be non-zero)
    if not fails and case['pair'] in ('equal', 'orders', 'size', 'lam') and cfg1['fbase'] == 'FFFF':
        def const_field(ref, dof, val):
            c = np.zeros(ref.size)
            k = ref.dofs.index(dof)
            for j in (0, 2):
                for i in (0, 2):
                    c[3 * (j * ref.m + i) + k] = val
            return c
        maps = {'SSycte': [('u', 'u', 1), ('v', 'v', 1), ('w', 'w', 1)], 'SSxcte': [('u', 'u', 1), ('v', 'v', 1), ('w', 'w', 1)],
                'SB': [('u', 'u', 1), ('v', 'v', 1), ('w', 'w', 1)],
                'BFycte': [('u', 'u', 1), ('v', 'w', 1), ('w', 'v', -1)], 'BFxcte': [('u', 'w', 1), ('v', 'v', 1), ('w', 'u', -1)]}
        for d1, d2, sgn in maps[case['conn']]:
            c = np.zeros(size)
            c[r1:r1 + ref1.size] = const_field(ref1, d1, 1.0)
            c[r2:r2 + ref2.size] = const_field(ref2, d2, float(sgn))
            e = c.dot(K).dot(c)
            if abs(e) > 1e-10 * sc:
                fails.append(fail('a rigid translation continuous across the interface has non-zero mismatch energy', sig=None, case=case,
                                  field=d1, energy=float(e)))
    return dict(fails=fails[:5], execs=execs, transitions=execs, nontrivial=1)


def check_ktkr(case):
    import compmech.panel.connections as connections
    seed = case['seed']
    fails = []
    cfgA = dict(model='plate', a=0.6, b=0.4, lam='cross_sym', m=3, n=3, seed=seed)
    cfgB = dict(model='plate', a=0.6, b=0.4, lam='cross_sym' if case['pair'] == 'equal' else 'general', m=3, n=3, seed=seed)
    if case['pair'] == 'size':
        cfgB.update(a=0.3, b=0.11, lam='cross_unsym')
    pA, pB = pan.make_panel(cfgA), pan.make_panel(cfgB)
    k1 = connections.calc_kt_kr(pA, pB, case['ctype'])
    swapped = {'xcte-ycte': 'ycte-xcte', 'ycte-xcte': 'xcte-ycte'}.get(case['ctype'], case['ctype'])
    k2 = connections.calc_kt_kr(pan.make_panel(cfgB), pan.make_panel(cfgA), swapped)
    for a, b, nm in zip(k1, k2, ('kt', 'kr')):
        if (a is None) != (b is None) or (a is not None and abs(a - b) > 1e-12 * abs(a)):
            sig = SIG_KT if (case['ctype'] == 'bot-top' and nm == 'kt') else None
            fails.append(fail('penalty constant %s is not symmetric in the two panels' % nm, sig=sig, case=case, forward=a, swapped=b))
    # series formula and linear scaling with the moduli
    lA = rl.abd(*[pan.laminate_of(cfgA)[0], [pan.PLYT] * len(pan.laminate_of(cfgA)[0]), [pan.laminate_of(cfgA)[1]] * len(pan.laminate_of(cfgA)[0])])
    lB = rl.abd(*[pan.laminate_of(cfgB)[0], [pan.PLYT] * len(pan.laminate_of(cfgB)[0]), [pan.laminate_of(cfgB)[1]] * len(pan.laminate_of(cfgB)[0])])
    ia, ib = {'xcte': (0, 0), 'ycte': (1, 1), 'bot-top': (0, 0), 'xcte-ycte': (0, 1), 'ycte-xcte': (1, 0)}[case['ctype']]
    hs = lA['h'] + lB['h']
    kt_ref = 4 * lA['A'][ia, ia] * lB['A'][ib, ib] / ((lA['A'][ia, ia] + lB['A'][ib, ib]) * hs)
    kr_ref = 4 * lA['D'][ia, ia] * lB['D'][ib, ib] / ((lA['D'][ia, ia] + lB['D'][ib, ib]) * hs)
    if case['ctype'] == 'bot-top':
        kt_ref = kt_ref / min(cfgA['a'], cfgA['b'])
        kr_ref = None
    if abs(k1[0] - kt_ref) > 1e-11 * abs(kt_ref) or (kr_ref is not None and abs(k1[1] - kr_ref) > 1e-11 * abs(kr_ref)):
        fails.append(fail('penalty constants are not the series combination of the two laminates', sig=None, case=case, got=k1,
                          expected=[kt_ref, kr_ref]))
    # scaling of all moduli by e scales kt, kr by e
    e = 3.7
    def scaled(cfg):
        p = pan.make_panel(cfg)
        E1, E2, nu, G12, G13, G23 = pan.laminate_of(cfg)[1] if len(pan.laminate_of(cfg)[1]) == 6 else (None,) * 6
        p.laminaprop = (E1 * e, E2 * e, nu, G12 * e, G13 * e, G23 * e)
        return p
    if len(pan.laminate_of(cfgA)[1]) == 6 and len(pan.laminate_of(cfgB)[1]) == 6:
        k3 = connections.calc_kt_kr(scaled(cfgA), scaled(cfgB), case['ctype'])
        for a, b, nm in zip(k1, k3, ('kt', 'kr')):
            if a is not None and abs(b - e * a) > 1e-11 * abs(e * a):
                fails.append(fail('penalty constant %s does not scale linearly with the elastic moduli' % nm, sig=None, case=case))
    # history: the same Panel objects are re-used after their ply properties were changed
    if len(pan.laminate_of(cfgA)[1]) == 6 and len(pan.laminate_of(cfgB)[1]) == 6:
        qa, qb = pan.make_panel(cfgA), pan.make_panel(cfgB)
        k_first = connections.calc_kt_kr(qa, qb, case['ctype'])
        for q, cfg in ((qa, cfgA), (qb, cfgB)):
            E1, E2, nu, G12, G13, G23 = pan.laminate_of(cfg)[1]
            newp = (E1 * e, E2 * e, nu, G12 * e, G13 * e, G23 * e)
            q.laminaprop = newp
            q.laminaprops = [newp for _ in q.stack]
        k_again = connections.calc_kt_kr(qa, qb, case['ctype'])
        for a, b, nm in zip(k_first, k_again, ('kt', 'kr')):
            if a is not None and abs(b - e * a) > 1e-11 * abs(e * a):
                fails.append(fail('penalty constant %s of re-used panels does not follow their changed ply properties' % nm, sig=None, case=case,
                                  first=a, again=b, expected=e * a))
    return dict(fails=fails, execs=5, transitions=5, nontrivial=1)


def _bay(curved, seed):
    from compmech.stiffpanelbay import StiffPanelBay
    spb = StiffPanelBay()
    spb.a, spb.b, spb.m, spb.n = 0.8, 0.5, 4, 5
    if curved:
        spb.r = 2.0
    spb.stack, spb.plyt, spb.laminaprop, spb.mu = [0., 90., 90., 0.], pan.PLYT, pan.M6, 1500.
    return spb


def _ref_of_panel(p):
    return pan.rp.PanelRef(p.a, p.b, p.m, p.n, {f: getattr(p, f) for f in pan.FLAGS}, r=(p.r if p.r else None))


def check_tstiff(case):
    """base-flange connection assembled inside TStiff2D.calc_k0: flange-flange and base-flange blocks"""
    import compmech.panel.connections as connections
    fails = []
    spb = _bay(case['curved'], case['seed'])
    ys = 0.2
    spb.add_panel(y1=0., y2=ys)
    spb.add_panel(y1=ys, y2=spb.b)
    s = spb.add_tstiff2d(ys=ys, mu=1500., bb=case['bb'], bstack=[0., 90.], bplyt=pan.PLYT, blaminaprop=pan.M6, mb=3, nb=4,
                         bf=case['bf'], fstack=[0., 90., 0.], fplyt=pan.PLYT, flaminaprop=pan.M6, mf=4, nf=3)
    s.eta_conn_base, s.eta_conn_flange = case['eta_conn_base'], case['eta_conn_flange']
    spb.calc_k0(silent=True)
    size = spb.get_size()
    nskin = 3 * spb.m * spb.n
    nb, nf = 3 * s.base.m * s.base.n, 3 * s.flange.m * s.flange.n
    s.calc_k0(size=size, row0=nskin, col0=nskin, silent=True)
    K = pan.dense(s.k0)
    kt, kr = connections.calc_kt_kr(s.base, s.flange, 'ycte')
    refb, reff = _ref_of_panel(s.base), _ref_of_panel(s.flange)
    y1c = (case['eta_conn_base'] + 1) / 2. * s.base.b
    y2c = (case['eta_conn_flange'] + 1) / 2. * s.flange.b
    K11, K12, K22 = rc.conn_hessian('BFycte', refb, reff, kt, kr, y1c, y2c)
    kff = pan.dense(s.flange.calc_k0(silent=True))
    ob, of = nskin, nskin + nb
    got12, got22 = K[ob:ob + nb, of:of + nf], K[of:of + nf, of:of + nf]
    sc = np.abs(K22).max() + np.abs(kff).max()
    if np.abs(got12 - K12).max() > 1e-9 * sc:
        fails.append(fail('T-stiffener: base-flange coupling block is not the Hessian of the mismatch energy on the stated interface lines', sig=None,
                          case=case, rel=float(np.abs(got12 - K12).max() / sc)))
    if np.abs(got22 - (kff + K22)).max() > 1e-9 * sc:
        fails.append(fail('T-stiffener: flange block is not the flange stiffness plus the connection Hessian on the stated interface line', sig=None,
                          case=case, rel=float(np.abs(got22 - (kff + K22)).max() / sc)))
    return dict(fails=fails, execs=3, transitions=3, nontrivial=1)


def check_b2d(case):
    """skin-flange connection assembled inside BladeStiff2D.calc_k0 (flange only): whole stiffener contribution"""
    import compmech.panel.connections as connections
    fails = []
    spb = _bay(case['curved'], case['seed'])
    ys = case['ysf'] * spb.b
    spb.add_panel(y1=0., y2=ys)
    spb.add_panel(y1=ys, y2=spb.b)
    s = spb.add_bladestiff2d(ys=ys, mu=1500., bf=case['bf'], fstack=[0., 90., 0.], fplyt=pan.PLYT, flaminaprop=pan.M6, mf=4, nf=3)
    # edge restraints of the flange that differ between u, v and w (every series of the connection must use its own flags)
    ffl = case.get('fflags', 'default')
    if ffl == 'u_free':
        s.flange.u1tx = s.flange.u2tx = 1.0
    elif ffl == 'mixed':
        s.flange.u1tx, s.flange.u2rx, s.flange.v2tx, s.flange.w1rx = 1.0, 1.0, 1.0, 0.0
    elif ffl == 'generic':
        for k, nm in enumerate(['u1tx', 'u1rx', 'u2tx', 'u2rx', 'v1tx', 'v1rx', 'v2tx', 'v2rx', 'w1tx', 'w1rx', 'w2tx', 'w2rx']):
            setattr(s.flange, nm, [0.7, 1.1, 0.0, 1.3, 0.0, 0.9, 1.2, 1.0, 0.0, 0.6, 0.0, 1.4][k])
    Kt = pan.dense(spb.calc_k0(silent=True))
    size = spb.get_size()
    nskin = 3 * spb.m * spb.n
    nf = 3 * s.flange.m * s.flange.n
    spb0 = _bay(case['curved'], case['seed'])
    spb0.add_panel(y1=0., y2=ys)
    spb0.add_panel(y1=ys, y2=spb.b)
    Ks = pan.dense(spb0.calc_k0(silent=True))
    kt, kr = connections.calc_kt_kr(s.panel1, s.flange, 'ycte')
    refs = pan.rp.PanelRef(spb.a, spb.b, spb.m, spb.n, {}, r=(2.0 if case['curved'] else None))
    reff = _ref_of_panel(s.flange)
    K11, K12, K22 = rc.conn_hessian('BFycte', refs, reff, kt, kr, ys, 0.0)
    exp = np.zeros((size, size))
    exp[:nskin, :nskin] = Ks + K11
    exp[:nskin, nskin:] = K12
    exp[nskin:, :nskin] = K12.T
    exp[nskin:, nskin:] = pan.dense(s.flange.calc_k0(silent=True)) + K22
    sc = np.abs(exp).max()
    if np.abs(Kt - exp).max() > 1e-9 * sc:
        idx = np.unravel_index(np.argmax(np.abs(Kt - exp)), exp.shape)
        fails.append(fail('blade stiffener: bay stiffness is not skin + flange + Hessian of the skin-flange mismatch energy at the stiffener position',
                          sig=None, case=case, index=[int(i) for i in idx], got=float(Kt[idx]), expected=float(exp[idx])))
    return dict(fails=fails, execs=3, transitions=3, nontrivial=1)


def check_case(case):
    return dict(conn=check_conn, ktkr=check_ktkr, tstiff=check_tstiff, b2d=check_b2d, multi=check_multi)[case['kind']](case)
