"""C02 - panel constitutive stiffness = Hessian of the Donnell CLT strain energy of the package's own series.

E3 configuration lattice (complete up to k deviations from several bases) over model x geometry x laminate x offset x
24 edge flags x series orders x y sub-interval x placement x constant pre-load x finalize.  Oracle: separable exact
assembly of int B^T F B from the strain operator (mc/ref/panel.py).  Edges: tiling of sub-intervals, pre-load = kG.
"""
import numpy as np

from .. import pan
from ..core import fail

RULE = ('one case = one configuration of the lattice (all assignments with <= k coordinates off a base; k=2 quick, k=3 thorough; '
        'bases SSSS-default, FFFF flags-only, generic flags); non-trivial = configuration whose reference matrix differs from the '
        "base configuration's (all but the bases themselves)")
ASSUMPTIONS = ['conical panels: reference uses the package geometry r = r_bot - x sin(alpha), Donnell cone kinematics with the package twist convention kxy = -2 w,xy + (r,x/r) w,y, and the same 41-section piecewise-constant radius/width approximation',
               'tolerance 1e-11 x magnitude of the summands of each entry (observed error <= 1e-14 of it)']
RTOL = 1e-11
SIG_CONE = 'C02:kpanel-sin-alpha-terms-have-sign-of-growing-radius'

ORDS = [(4, 4), (1, 1), (2, 3), (3, 2), (5, 5), (8, 3), (3, 8), (12, 2), (2, 12), (30, 3), (3, 30), (16, 3), (3, 16), (1, 30)]
COORDS = dict(
    model=['plate', 'cpanel', 'plate_w', 'kpanel'],
    alpha=[0.0, 15.0, 35.0, 59.0, -20.0],
    geom=['g1', 'g2'],
    r=[3.0, 0.8],
    lam=['general', 'uni0', 'cross_sym', 'cross_unsym', 'angle', 'iso'],
    offset=['0', '+d', '-d'],
    fbase=['SSSS', 'CCCC', 'FFFF', 'CFFF', 'generic'],
    ord=list(range(len(ORDS))),
    sub=['none', 'full', 'lo', 'mid', 'hi', 'wide'],
    place=['none', 'shift', 'tail', 'head'],
    preload=[0, 1, 2, 3, 4],
    finalize=[1, 0],
    ortho=[0, 1],
)
for _f in pan.FLAGS:
    COORDS['t_' + _f] = [0, 1]
PRELOADS = [None, (-1.0e3, 0.0, 0.0), (0.3e3, -0.7e3, 0.45e3), (500.0, -500.0, 0.0), (-200.0, 0.0, 200.0)]
GEOMS = {'g1': (2.0, 1.0), 'g2': (0.7, 1.3)}


def expand(c, seed):
    """lattice point -> builder configuration"""
    m, n = ORDS[c['ord']]
    a, b = GEOMS[c['geom']]
    model = c['model']
    cfg = dict(model=model, a=a, b=b, r=c['r'], alphadeg=c['alpha'] if model == 'kpanel' else 0.0, lam=c['lam'],
               offset=c['offset'], fbase=c['fbase'], ftoggle=[f for f in pan.FLAGS if c.get('t_' + f)], m=m, n=n,
               sub=c['sub'], place=c['place'], preload=PRELOADS[c['preload']], finalize=bool(c['finalize']), ortho=bool(c.get('ortho', 0)), seed=seed)
    return cfg


def invalid_geometry(cfg):
    """conical panel whose radius r_bot - a sin(alpha) does not stay well positive along the meridian"""
    return cfg['model'] == 'kpanel' and cfg['r'] - cfg['a'] * np.sin(np.deg2rad(abs(cfg['alphadeg']))) < 0.25 * cfg['r']


def cases(tier, seed):
    k = 2 if tier == 'quick' else 3
    pts = pan.lattice(COORDS, k)
    flag_coords = {q: v for q, v in COORDS.items() if q.startswith('t_')}
    for fb in ('FFFF', 'generic'):
        base = {q: COORDS[q][0] for q in COORDS}
        base['fbase'] = fb
        sub = pan.lattice(dict(flag_coords), 2 if fb == 'FFFF' else 1, base=None)
        for s in sub:
            c = dict(base)
            c.update({q: v for q, v in s.items()})
            pts.append(c)
    cone_base = {q: COORDS[q][0] for q in COORDS}
    cone_base.update(model='kpanel', alpha=15.0)
    pts += pan.lattice(COORDS, k - 1, base=cone_base)
    # free edges with a longer series along y: every sub-interval letter sees the edge functions and indices up to 7
    free_base = {q: COORDS[q][0] for q in COORDS}
    free_base.update(fbase='FFFF', ord=ORDS.index((3, 8)))
    pts += pan.lattice(COORDS, k - 1, base=free_base)
    seen, out = set(), []
    for c in pts:
        key = tuple(sorted((q, str(v)) for q, v in c.items() if q != '_ndev'))
        if key in seen:
            continue
        seen.add(key)
        out.append(dict(lp={q: v for q, v in c.items() if q != '_ndev' and v != COORDS[q][0]}, seed=seed))
    return out


def full_point(lp):
    c = {q: COORDS[q][0] for q in COORDS}
    c.update(lp)
    return c


def ortho_F(F):
    """force_orthotropic_laminate: the 16 / 26 entries of A, B and D are removed"""
    F = np.array(F, dtype=float)
    for (i, j) in ((0, 2), (1, 2), (0, 5), (1, 5), (3, 2), (4, 2), (3, 5), (4, 5)):
        F[i, j] = F[j, i] = 0.0
    return F


def k0_of(cfg):
    p = pan.make_panel(cfg)
    if cfg.get('ortho'):
        p.force_orthotropic_laminate = True
    nloc = (1 if cfg['model'] == 'plate_w' else 3) * cfg['m'] * cfg['n']
    size, r0, c0 = pan.placement(cfg, nloc)
    K = pan.dense(p.calc_k0(size=size, row0=r0, col0=c0, silent=True, finalize=cfg['finalize']))
    return p, K, (size, r0, c0, nloc)


def check_case(case):
    cfg = expand(full_point(case['lp']), case['seed'])
    if invalid_geometry(cfg):
        return dict(fails=[], execs=0, nontrivial=0, skipped_invalid_geometry=1)
    if cfg['model'] == 'plate_w' and False:
        return []
    fails = []
    execs = 1
    p, K, (size, r0, c0, nloc) = k0_of(cfg)
    ref, lam = pan.make_ref(cfg)
    F = ortho_F(lam['ABD']) if cfg.get('ortho') else lam['ABD']
    Kr = ref.k0(F)
    S = ref.k0_scale(F)
    if cfg['preload']:
        Nxx, Nyy, Nxy = cfg['preload']
        Kr = Kr + ref.kG(Nxx, Nyy, Nxy)
        S = S + np.abs(ref.kG(abs(Nxx), abs(Nyy), abs(Nxy)))
    Kr_g, S_g = pan.rp.embed(Kr, size, r0, c0), pan.rp.embed(S, size, r0, c0)
    got, exp = (K, Kr_g) if cfg['finalize'] else (np.triu(K), np.triu(Kr_g))
    tri = (lambda A: A) if cfg['finalize'] else np.triu

    def build(rv):
        E, Sc = rv.k0(F), rv.k0_scale(F)
        if cfg['preload']:
            E = E + rv.kG(*cfg['preload'])
            Sc = Sc + np.abs(rv.kG(*[abs(v) for v in cfg['preload']]))
        return tri(pan.rp.embed(E, size, r0, c0)), tri(pan.rp.embed(Sc, size, r0, c0))
    status, ratio, idx, info = pan.tiered(ref, got, exp, tri(S_g), RTOL, build)
    table_finding = status == 'known'
    if status == 'known':
        fails.append(fail('calc_k0 differs from the strain-energy Hessian by more than 1e-9 of the natural entry scale (explained by the '
                          'sub-interval integral tables alone: the same formula with the package\'s own table values reproduces calc_k0)',
                          sig=pan.SIG_TABLES, cfg=cfg, index=idx, got=float(got[idx]), expected=float(exp[idx]), **info))
    elif status == 'violation' and info:
        fails.append(fail('calc_k0: ' + info['kind'], sig=None, cfg=cfg, index=idx, **{k: v for k, v in info.items() if k != 'kind'}))
    elif status == 'violation':
        sig = None
        if cfg['model'] == 'kpanel' and cfg['alphadeg'] != 0:
            # explained-by test for the known finding: kernel uses the strain terms of a cone whose radius GROWS with x
            refk, _ = pan.make_ref(cfg, sigma=+1.0)
            Kk = refk.k0(F)
            if cfg['preload']:
                Kk = Kk + refk.kG(*cfg['preload'])
            Kk = pan.rp.embed(Kk, size, r0, c0)
            rk, _i = pan.worst(got, Kk if cfg['finalize'] else np.triu(Kk), S_g, RTOL)
            if rk <= 1:
                sig = SIG_CONE
        fails.append(fail('calc_k0 differs from the strain-energy Hessian' + (' (conical panel: explained by sin(alpha) terms '
                          'taken with the sign of a radius growing with x)' if sig else ''), sig=sig, cfg=cfg, index=idx,
                          got=float(got[idx]), expected=float(exp[idx]), scale=float(S_g[idx])))
    mask = np.zeros((size, size), dtype=bool)
    mask[r0:r0 + nloc, c0:c0 + nloc] = True
    if np.any(K[~mask] != 0):
        fails.append(fail('calc_k0 wrote outside the panel block', sig=None, cfg=cfg))
    if cfg['finalize']:
        if np.abs(K - K.T).max() > 0:
            fails.append(fail('finalised k0 not symmetric', sig=None, cfg=cfg))
        if not cfg['preload'] and not table_finding:
            act = ref.active()
            Kl = K[r0:r0 + nloc, c0:c0 + nloc][np.ix_(act, act)]
            d = np.sqrt(np.abs(np.diag(Kl)))
            d[d == 0] = 1.0
            w = np.linalg.eigvalsh(Kl / np.outer(d, d)) if Kl.size else np.zeros(1)
            # eigenvalue perturbation allowed by the entry-wise tolerance (conditioning of sub-interval / section integrals)
            Sl = S_g[r0:r0 + nloc, c0:c0 + nloc][np.ix_(act, act)]
            psd_tol = 1e-8 + (np.linalg.norm(RTOL * Sl / np.outer(d, d)) if Kl.size else 0.0)
            if w.min() < -psd_tol:
                fails.append(fail('k0 not positive semi-definite', sig=None, cfg=cfg, min_eig_scaled=float(w.min()), allowed=float(psd_tol)))
    trans = 0
    # edge: pre-load contribution equals the package's own constant-load geometric matrix
    if cfg['preload'] and cfg['finalize']:
        c2 = dict(cfg, preload=None)
        p2, K2, _ = k0_of(c2)
        p2.Nxx, p2.Nyy, p2.Nxy = cfg['preload']
        KG = pan.dense(p2.calc_kG0(size=size, row0=r0, col0=c0, silent=True))
        execs += 2
        trans += 1
        r2, i2 = pan.worst(K - K2, KG, S_g, 4 * RTOL)
        if r2 > 1:
            fails.append(fail('constant pre-load does not add exactly the matching initial-stress matrix', sig=None, cfg=cfg,
                              index=i2))
    # edge: tiling of sub-intervals
    if cfg['sub'] == 'lo' and cfg['finalize']:
        tot = np.zeros_like(K)
        for s in ('lo', 'mid', 'hi'):
            tot += k0_of(dict(cfg, sub=s))[1]
        whole = k0_of(dict(cfg, sub='none'))[1]
        full = k0_of(dict(cfg, sub='full'))[1]
        execs += 5
        trans += 2
        pre = cfg['preload']
        Sw = 0.0
        for s_ in ('lo', 'mid', 'hi'):
            rs = pan.make_ref(dict(cfg, sub=s_))[0]
            Sw = Sw + rs.k0_scale(F)
            if pre:
                Sw = Sw + rs.scale_of([('w', 'w', abs(pre[0]) * 2 * cfg['b'] / cfg['a'] + abs(pre[2]) * 2, 1, 1, 0, 0),
                                       ('w', 'w', abs(pre[1]) * 2 * cfg['a'] / cfg['b'] + abs(pre[2]) * 2, 0, 0, 1, 1)])
        Sw = pan.rp.embed(Sw, size, r0, c0)
        for nm, Wm in (('whole-domain matrix', whole), ('(0,b) sub-interval matrix', full)):
            r3, i3 = pan.worst(tot, Wm, Sw, 10 * RTOL)
            if r3 > 1:
                fails.append(fail('sub-intervals that tile the width do not add up to the %s' % nm, sig=None, cfg=cfg, index=i3,
                                  got=float(tot[i3]), expected=float(Wm[i3])))
    # edge: re-use of one Panel object - evaluate the neighbouring (base-side) configuration first, then change the
    # definition attributes on the same object and evaluate again: must equal the freshly defined object
    REUSE = ('offset', 'geom', 'r', 'alpha', 'fbase', 'ord', 'sub', 'preload', 'ortho')
    lp = case['lp']
    devs = [q for q in lp if q in REUSE or q.startswith('t_')]
    if devs and cfg['finalize'] and not fails:
        q = sorted(devs)[-1]
        nb = dict(full_point(lp))
        nb[q] = COORDS[q][0] if COORDS[q][0] != nb[q] else COORDS[q][1]
        cfg_nb = expand(nb, case['seed'])
        p2 = pan.make_panel(cfg_nb)
        p2.force_orthotropic_laminate = bool(cfg_nb.get('ortho'))
        s2 = pan.placement(cfg_nb, (1 if cfg_nb['model'] == 'plate_w' else 3) * cfg_nb['m'] * cfg_nb['n'])
        p2.calc_k0(size=s2[0], row0=s2[1], col0=s2[2], silent=True)
        p2.force_orthotropic_laminate = bool(cfg.get('ortho'))
        pt = pan.make_panel(cfg)                       # donor of the target definition
        for att in ('a', 'b', 'r', 'alphadeg', 'offset', 'm', 'n', 'y1', 'y2', 'Nxx_cte', 'Nyy_cte', 'Nxy_cte') + tuple(pan.FLAGS):
            if att in ('r', 'alphadeg') and cfg['model'] not in ('cpanel', 'kpanel'):
                continue
            setattr(p2, att, getattr(pt, att))
        Kre = pan.dense(p2.calc_k0(size=size, row0=r0, col0=c0, silent=True))
        execs += 2
        trans += 1
        rr, ir = pan.worst(Kre, K, S_g, RTOL)
        if rr > 1:
            fails.append(fail('k0 of a re-used Panel object whose definition was changed differs from that of a freshly defined panel',
                              sig=None, cfg=cfg, changed=q, index=ir, got=float(Kre[ir]), expected=float(K[ir])))
    return dict(fails=fails, execs=execs, transitions=trans + len(case['lp']), max_ratio=ratio,
                nontrivial=1 if case['lp'] else 0)


def summarize(results, tier, seed):
    return dict(deviation_bound_completed=2 if tier == 'quick' else 3, caps_hit=False,
                max_err_over_tol=max(r.get('max_ratio', 0) for r in results), rtol=RTOL,
                coordinates={k: len(v) for k, v in COORDS.items()})
