#!/bin/bash
# usage: confirm_seed.sh <worktree> <mutdir> <k> <seedid>
# Confirms a seeded change: demo fails with it, demo passes without it, the repository's own suite still passes with it.
wt="$1"; md="$2"; k="$3"; sid="$4"
out=/verif/seeded/$sid; mkdir -p "$out"
cp "$md/m$k.diff" "$out/patch.diff"; cp "$md/demo$k.py" "$out/demo.py"; cp "$md/notes$k.md" "$out/notes.md" 2>/dev/null
log="$out/confirm.log"; : > "$log"
cd "$wt" || exit 2
git checkout -q -- . ; git clean -fdq -e '*.so' -e '*.c' >/dev/null 2>&1
echo "== demo on clean worktree" >> "$log"
PYTHONPATH="$wt" timeout 900 /venv/bin/python "$out/demo.py" >> "$log" 2>&1; c0=$?
echo "exit=$c0" >> "$log"
git apply "$out/patch.diff" >> "$log" 2>&1 || { echo "APPLY FAILED" >> "$log"; exit 3; }
echo "== demo with change applied" >> "$log"
PYTHONPATH="$wt" timeout 900 /venv/bin/python "$out/demo.py" >> "$log" 2>&1; c1=$?
echo "exit=$c1" >> "$log"
echo "== repository test-suite with change applied" >> "$log"
PYTHONPATH="$wt" timeout 2400 /venv/bin/python -m pytest -q -p no:cacheprovider --timeout=900 --continue-on-collection-errors compmech 2>&1 | tail -4 >> "$log"
git checkout -q -- .
echo "SUMMARY clean_exit=$c0 mutant_exit=$c1 $(grep -E '[0-9]+ passed' "$log" | tail -1)" >> "$log"
tail -1 "$log"
