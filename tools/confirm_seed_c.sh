#!/bin/bash
# usage: confirm_seed_c.sh <worktree> <mutdir> <k> <seedid> <rebuild script (takes the worktree as $1)>
# As confirm_seed.sh, for changes to lib/src/*.c: the extensions embedding the changed C file are rebuilt in the scratch
# worktree before the demo and the suite run, and the original binaries are restored afterwards.
wt="$1"; md="$2"; k="$3"; sid="$4"; rb="$5"
out=/verif/seeded/$sid; mkdir -p "$out"
cp "$md/m$k.diff" "$out/patch.diff"; cp "$md/demo$k.py" "$out/demo.py"; cp "$md/notes$k.md" "$out/notes.md" 2>/dev/null
cp "$rb" "$out/rebuild.sh"; for f in "$md"/rebuild_common.sh; do [ -f "$f" ] && cp "$f" "$out/"; done
log="$out/confirm.log"; : > "$log"
cd "$wt" || exit 2
git checkout -q -- .
bk=$(mktemp -d /tmp/sobk.XXXXXX); find compmech -name "*.so" -print0 | rsync -a --from0 --files-from=- "$wt"/ "$bk"/
echo "== demo on clean worktree" >> "$log"
PYTHONPATH="$wt" timeout 900 /venv/bin/python "$out/demo.py" >> "$log" 2>&1; c0=$?
echo "exit=$c0" >> "$log"
git apply "$out/patch.diff" >> "$log" 2>&1 || { echo "APPLY FAILED" >> "$log"; exit 3; }
echo "== rebuilding extensions" >> "$log"
(cd "$md" && ROOT="$wt" bash "$rb" "$wt") >> "$log" 2>&1
echo "== demo with change applied" >> "$log"
PYTHONPATH="$wt" timeout 900 /venv/bin/python "$out/demo.py" >> "$log" 2>&1; c1=$?
echo "exit=$c1" >> "$log"
echo "== repository test-suite with change applied" >> "$log"
PYTHONPATH="$wt" timeout 2400 /venv/bin/python -m pytest -q -p no:cacheprovider --timeout=900 --continue-on-collection-errors compmech 2>&1 | tail -4 >> "$log"
git checkout -q -- .
rsync -a "$bk"/ "$wt"/; rm -rf "$bk"
echo "SUMMARY clean_exit=$c0 mutant_exit=$c1 $(grep -E '[0-9]+ passed' "$log" | tail -1)" >> "$log"
tail -1 "$log"
