#!/bin/bash
# usage: try_mutant.sh <pid> <k> [check ids...]  -- applies /tmp/mut_<pid>/m<k>.diff in /tmp/wt_<pid> and runs checks with VERIF_REPO there
pid=$1; k=$2; shift 2; checks="${@:-$pid}"
wt=/tmp/wt_$pid
git -C $wt checkout -q -- . ; git -C $wt apply /tmp/mut_$pid/m$k.diff || exit 3
for c in $checks; do (cd /verif && VERIF_REPO=$wt ./check $c --tier ${TIER:-quick} 2>&1 | grep -E "^\s+[0-9]+ x|^$c|BINDER" | cut -c1-220 | head -8); done
git -C $wt checkout -q -- .
