NOTES = ('Bounded-exhaustive model checking of the real implementation; see DESIGN.md. '
         'Known genuine defects are listed in known_findings.json.')
NOT_APPLICABLE = {}
CHECKS = {
 'C10': dict(engine='E3', design_ref='4/C10',
    technique='exhaustive enumeration (full products of index pairs x endpoint/mapping/flag alphabets) of the real C tables against exact rational polynomials',
    text='Every exported function of lib/src is called through ctypes for all 900 index pairs of all 17 integral families, '
         'all endpoint pairs of a rational grid, all mapped-argument letters, all 256 0/1 flag settings on the flagged block, '
         'all 30 functions x 3 derivatives x rational abscissae, all Gauss orders 2..64 and all trapezoid/Simpson grid sizes; '
         'each value is compared with the exact rational integral/polynomial. Complete over the stated finite alphabets.',
    note='C compiled from the current tree with gcc -O0 (the extensions embed the same sources; they are rebuilt and shadow-loaded when the sources change); '
         'real-valued endpoints between grid letters are covered only through polynomial structure; tolerance 2e3*eps*conditioning scale'),
}
