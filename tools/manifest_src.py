NOTES = ('Bounded-exhaustive model checking of the real implementation; see DESIGN.md. '
         'Known genuine defects are listed in known_findings.json.')
NOT_APPLICABLE = {}
CHECKS = {
 'C17': dict(engine='E3', design_ref='4/C17',
    technique='exhaustive enumeration (full product of every anchored non-linear-capable shell model x {cylinder, cone} x series orders x state letters x integration rule x grid x thread count x imperfection) on the real ConeCyl.calc_kT/calc_fint against central finite differences along a complete basis of the free amplitudes',
    text='kTuu symmetric; every column of kTuu equals the central-difference derivative of calc_fint with a tolerance tied to the non-linear part of the tangent; internal force of the undeformed perfect shell is zero and its tangent is k0uu; '
         'for vanishing amplitudes fint -> k0uu c; results independent of the number of integration threads (1e-11).',
    note='four kernel-level deviations (fsdt_donnell_bc1/bcn, clpt_sanders_bc2/bc3) are known findings, accepted only while calc_kT/calc_fint equal the documented composition of direct kernel calls'),
 'C18': dict(engine='E3', design_ref='4/C18',
    technique='exhaustive enumeration (all admissible geometry input pairs x angles; all prescribed-amplitude subsets x formats with index-encoding matrices; full product model x angle x prescribed subset x load letter x load factor) on the real ConeCyl book-keeping, calc_fext and static against virtual work through the package displacement report',
    text='Derived geometry mutually consistent for every admissible input pair; exclude_dofs_matrix / calc_full_c are inverse book-keeping (checked with matrices whose entries encode their indices); '
         'fext.e_k equals the virtual work of point forces, axial ring load, pressure (quadrature of w) and torque ring load against uvw(e_k), incremental parts scaled by the load factor, '
         'with -k0uk ck of the prescribed amplitudes on the right-hand side; the linear static solution satisfies K_uu c_u = f_u.',
    note='static check for the conical clpt_donnell_bc2 model is attributed to the C16 kernel finding only while K_uu has zero diagonal entries'),
 'C16': dict(engine='E3', design_ref='4/C16',
    technique='exhaustive enumeration (full product of every anchored importable shell model x semi-vertex angle x geometry x laminate x series orders x edge-restraint letters; kernel-identity edges) on the real ConeCyl linear matrices against the energy Hessian of the package own linear strain field and against direct kernel calls',
    text='k0 symmetric, positive semi-definite, equal to the symmetrised kernel (+ edge matrix) for harness-computed arguments, k0uu = k0 without the prescribed amplitudes; for classical models k0 on the non-prescribed amplitudes equals '
         'the Hessian of Int 1/2 eps^T F eps r dx dtheta of the odd part of commons.fstrain plus the edge restraint energy (cylinders to 1e-11, cones: Richardson limit of s=20,40,80 and 1/s^2 rate); '
         'cylinder kernels == cone kernels at 0 deg; isotropic short-cuts == general model with isotropic laminate; kG0 additive/linear in (Fc,P,T), combined-load split adds up.',
    note='five kernel-level defects are known findings accepted only while the Python layer equals a direct kernel call; clpt_donnell_bcn is registered but not importable in this tree and is skipped'),
 'C14': dict(engine='E3', design_ref='4/C14',
    technique='exhaustive enumeration of description-transformation edges (cone(0)<->cylinder, cylinder(r=10^k)->plate, w-only<->w-block, numeric<->analytic kernels, x<->y exchange, similarity scaling) x laminate x flag base x orders x load triples, differential oracle between two real executions',
    text='For every edge and configuration letter the two descriptions are evaluated through the public API and compared: matrices identical to rounding (cone at 0 deg vs cylinder, w-only vs w-block, numeric vs analytic at the undeformed state), '
         'decay at least like 1/r towards the plate, identical frequency and buckling spectra under the axis exchange, and the e*s / sqrt(e/q)/s similarity laws.',
    note='spectra edges only for restraint patterns that make K positive definite'),
 'C15': dict(engine='E3', design_ref='4/C15',
    technique='exhaustive enumeration of all series orders (m,n) in a square range for every (laminate, aspect ratio, load ratio/frequency, restraint) letter; every lattice edge (m,n)->(m+1,n),(m,n+1) compared; closed-form double-sine oracle',
    text='None of the lowest five buckling multipliers / squared frequencies may rise along any edge of the (m,n) lattice; for SSSS specially orthotropic plates every k-th value is bounded below by the k-th closed-form value and the lowest converges to it.',
    note='quick: orders 4..10, thorough: 4..16; monotonicity tolerance 1e-7 relative (dense eigen-solver noise floor 2e-9)'),
 'C05': dict(engine='E3', design_ref='4/C05',
    technique='exhaustive enumeration (full product size x stiffness spectrum x geometric-matrix letter x eigenbasis x null-row pattern x requested number x solver switch) of constructed symmetric pairs with exactly known multipliers, plus package (k0,kG0) pairs, through the real compmech.analysis.lb and Panel.lb',
    text='Every returned pair must satisfy (K + lambda KG) v = 0 to 1e-6 of the matrix scale with zeros on amplitudes without stiffness; for sub-critical destabilising reference loads the values must be ascending and equal the smallest positive exact multipliers d_i/g_i; '
         'scaling the reference load by s (kept sub-critical) divides the multipliers by s; inputs untouched; Panel.lb agrees with analysis.lb on the same matrices.',
    note='only finite multipliers are requested (rank-deficient geometric matrices have fewer); ARPACK start vector not owned: residual/known-spectrum oracles'),
 'C06': dict(engine='E3', design_ref='4/C06',
    technique='exhaustive enumeration (full product size x spectrum incl. frequencies closer than 0.05 rad/s x mass letter x eigenbasis x null pattern x requested number x solver x sort x reduced_dof) of constructed pairs with exactly known frequencies, plus panels, an assembly and a stiffened bay, through the real compmech.analysis.freq and Panel.freq',
    text='Every returned pair must satisfy K v = omega^2 M v, frequencies positive and ascending to 1e-9, modes zero on massless amplitudes, the lowest exact frequencies returned on both paths, '
         'mass scaling by s scales frequencies by 1/sqrt(s), reduced_dof returns the (v,w)-block spectrum re-expanded with zeros, inputs untouched.',
    note='requested number restricted to active size - 2 (ARPACK limit)'),
 'C07': dict(engine='E3', design_ref='4/C07',
    technique='exhaustive enumeration (full product structure kind x force-set letters x load factor x restraint pattern; all panel sequences up to a length; bay compositions x force placement) with a complete unit-amplitude basis per case; real calc_fext/static vs virtual work through the package field report and K c = f residuals',
    text='For every case and every unit amplitude vector the product fext.e_k must equal the sum over forces of force times the displacement the package reports at the force location '
         '(incrementable forces scaled by the load factor); by linearity this decides the statement for all amplitude vectors. Linear static solutions must satisfy K c = f on active amplitudes, '
         'vanish on amplitudes without stiffness and be homogeneous/additive in the loads (edges between real executions).',
    note='static checks only for restraint patterns that make K positive definite on the active amplitudes, as the statement presupposes; bays use compmech.analysis.static as the tests do'),
 'C12': dict(engine='E3', design_ref='4/C12',
    technique='exhaustive enumeration (full product connection kind x interface positions x panel-pair letters x order in the global vector x leading panel; penalty-constant routes) on the real PanelAssembly.get_k0_conn / connection kernels / calc_kt_kr against the quadrature Hessian of the interface mismatch energy',
    text='Every connection matrix is compared with the Hessian of kt/2 Int|jump u|^2 + kr/2 Int(jump rotation)^2 evaluated with both panels own series at their offsets in the global vector; '
         'symmetry, positive semi-definiteness, zero energy for rigid translations continuous across the interface, proportionality to (kt, kr) through the kernels, '
         'symmetry / series formula / linear modulus scaling of the derived penalty constants.',
    note='interface kinematics of the perpendicular base-flange and face-to-face kinds are taken as documented for the package (u1=u2, v1=w2, w1=-v2; u1+d w1,x=u2 ...); kernels cannot be regenerated in the sandbox'),
 'C13': dict(engine='E3', design_ref='4/C13',
    technique='exhaustive enumeration of compositions (all panel sequences up to a length; all subsets of skin cut positions x all stiffener sequences up to length 2 over six stiffener letters x flat/curved) with differential oracles between real executions',
    text='Global stiffness, geometric and mass matrices and force vectors must equal the sum of every component evaluated stand-alone on fresh objects at harness-computed offsets plus the connection matrix; '
         'size == sum of component sizes; re-cutting a uniformly laminated skin changes nothing; each stiffener adds a symmetric positive semi-definite stiffness and mass contribution confined to the skin and its own amplitudes.',
    note='expected values come from other real executions (differential oracle); the absolute correctness of the component kernels is C02-C04/C12 business'),
 'C08': dict(engine='E3', design_ref='4/C08',
    technique='exhaustive enumeration (full product of model x laminate x flag base x orders x state letters x Gauss letters x laminate-table forms; assembly compositions x panel order x state) on the real calc_fint/calc_kT against the reference energy gradient/Hessian at the same quadrature points and against finite differences of the package itself along a complete basis',
    text='For every element: tangent symmetric; internal force and tangent equal the gradient and Hessian of U(c) evaluated by an independent quadrature reference; '
         'tangent equals the central-difference Jacobian of the package internal force along every basis direction with a tolerance tied to the non-linear part; fint(0)=0, fint(eps c) -> K0 c, kT(0)=K0; '
         'closed-path work zero; assemblies: fint = sum fint_p + k_conn c, kT = sum kT_p + k_conn, tangent == derivative of the assembly force.',
    note='states are letters (zero, infinitesimal, moderate, large, in-plane, out-of-plane) with seeded generic directions; quick prunes the product, thorough runs it fully'),
 'C11': dict(engine='E3', design_ref='4/C11',
    technique='exhaustive enumeration: full product model x flag base x orders x point-set letters with a complete unit-amplitude basis plus generic amplitude letters; complete product thread counts 1..16 x point counts 1..33; assembly/bay compositions; real field kernels vs the reference Ritz series and Donnell kinematics',
    text='Displacements, rotations, strains (with and without quadratic slope terms) and stress resultants returned by the public API are compared point-wise with the reference series; '
         'stress must be the laminate matrix times the strains reported for the same request; bit-identical results for every (thread count, point count) pair and for permuted points; '
         'each assembly group / bay region must be evaluated with its own slice of the amplitude vector.',
    note='the sum-of-squares defect of the non-linear strain kernel is a known finding matched by an explained-by signature; the w-only field module offers displacements only'),
 'C20': dict(engine='E2', design_ref='2.2, 4/C20',
    technique='explicit-state breadth-first search over histories of public calls on real objects (state = digest of the complete attribute dictionary, replay on fresh objects, merging of equal states), invariants checked on every transition',
    text='For Panel (flat, cylindrical), PanelAssembly and StiffPanelBay (four stiffener kinds) every history of public evaluation calls up to depth 2 (quick) / 3 (thorough) is executed; '
         'on every transition the result must equal the result of the same call on a freshly defined object (bit-identical for matrices, vectors, fields; 1e-8 for eigenvalues), '
         'each call must succeed first on a fresh object, caller inputs must be unchanged, and field results must be identical for every thread-count letter.',
    note='OpenMP interleavings inside a fixed thread count are not controlled (stated limit); eigenvectors are excluded from the state digest as output-only fields; ConeCyl histories are covered in C17/C18 call sequences only'),
 'C19': dict(engine='E3', design_ref='4/C19',
    technique='exhaustive enumeration (full product of model x flow x coefficient letters x geometry x flag patterns x orders; Mach-route letters; bays with and without stiffener) on the real calc_kA/calc_cA against the piston-theory bilinear forms assembled from exact 1-D integrals',
    text='For every element of the product the finalised aerodynamic stiffness matrix is compared with beta*Int(w_A dw_B/dflow) - gamma*Int(w_A w_B) (w restrained on the flow edges), the damping matrix with -i*aeromu*Int(w_A w_B); '
         'support on out-of-plane amplitudes only, linearity in the coefficients (also with free flow edges, negative control), flow-y == flow-x on the axis-exchanged panel, Mach-route == explicit coefficients, bay-level matrices.',
    note='conical panels are not supported by calc_kA (NotImplementedError) and are outside the statement; bay checks call calc_k0 first so that call-history effects stay with C20'),
 'C03': dict(engine='E3', design_ref='4/C03',
    technique='exhaustive enumeration: configuration lattice (<=k deviations) x load triples for the constant-load path, full product of model x laminate x flags x orders x state x Gauss order x laminate-table form for the state-based path; real Panel.calc_kG0 vs reference work Hessian',
    text='Constant-load matrices are compared entry-wise with the Hessian of the pre-stress work (exact 1-D tables), only out-of-plane amplitudes may be touched, symmetry, '
         'homogeneity and additivity in the load triple as edges between real executions. State-based matrices are compared with a reference using N = A eps + B kappa of the same state at the same Gauss points; '
         'uniform-membrane states must reproduce the constant-load matrix; per-point tables equal to the uniform laminate must change nothing; inputs must stay untouched.',
    note='Gauss points of the reference come from numpy (the package table is checked in C10); kernels cannot be regenerated in the sandbox'),
 'C04': dict(engine='E3', design_ref='4/C04',
    technique='exhaustive enumeration of a configuration lattice (<=k deviations over model, geometry, thickness, offset, 24 flags, orders, sub-interval, placement, density) on the real Panel.calc_kM against the kinetic-energy Hessian; full product for the reference-surface invariance edge',
    text='Every mass matrix entry is compared with the Hessian of the kinetic energy of (u - z w,x, v - z w,y, w); symmetry, positive definiteness on active amplitudes, '
         'rigid-translation mass = mu*h*area of the sub-interval, and invariance of the elastic spectrum of an unrestrained homogeneous panel under a move of the reference surface '
         '(edge between two real executions).',
    note='the coupling-sign defect of the kernels is a known finding matched by an explained-by signature (agreement with the reference built with the opposite coupling sign); any other deviation is a violation'),
 'C02': dict(engine='E3', design_ref='4/C02',
    technique='exhaustive enumeration of a configuration lattice (all assignments within k deviations of several bases over model, geometry, laminate, offset, 24 edge flags, series orders incl. index 30, y sub-intervals, placement, pre-load, finalize) on the real Panel.calc_k0 against an independent strain-operator Hessian assembled from exact 1-D integrals',
    text='Every lattice configuration is executed through the public Panel API and every matrix entry is compared with int B^T F B derived from the Donnell strain operator '
         '(exact rational 1-D tables, separable assembly; conical panels with the same 41-section frozen-radius approximation); zero outside the block, symmetry, PSD on active amplitudes; '
         'edges between real executions: tiling of sub-intervals, pre-load == initial-stress matrix. Complete up to 2 (quick) / 3 (thorough) deviations.',
    note='kernels (.pyx) cannot be regenerated here, so kernel mutations are invisible exactly as for the test-suite; the known cone finding is matched by an explained-by signature; '
         'tolerance 1e-11 of the summand magnitude'),
 'C09': dict(engine='E1', design_ref='2.1, 4/C09',
    technique='stateless choice-tree exploration (replay-based DFS, deviation-bounded, state merging at load-step boundaries) of all environment answer histories fed to the real Newton-Raphson driver',
    text='The real Analysis.static(NLgeom=True) is run to completion for every history of per-iteration residual answers (5-letter alphabet, all sequences up to a depth) and '
         'every history of per-load-step outcomes (converge fast/late, diverge, too slow, iteration limit) up to a deviation bound, over a lattice of driver configurations; '
         'on every complete execution the property itself is evaluated: equilibrium of every reported pair through the memoised residual function, strictly increasing load factors in (0,1], '
         'snapshot immutability, termination within a horizon, end at 1 or legitimate minimum-increment stop, linear problems solved exactly.',
    note='environment residuals are a deterministic function of (state, load factor) with magnitudes from a finite alphabet; the bound completed is reported in the evidence; '
         'driver state for merging is read from the frame of _solver_NR (no source hook)'),
 'C01': dict(engine='E3', design_ref='4/C01',
    technique='exhaustive enumeration of all stacks over an 8-angle alphabet up to length 3 (quick) / 4 (thorough) x full product of thickness/material/offset/argument-form letters, real code vs tensor-rotation reference; differential edges between real executions',
    text='Every laminate of the enumerated space is built with the real read_stack and all six reported matrices are compared entry-wise with an '
         'independent tensor-rotation + Gauss-through-thickness reference; offset law, mirror-stack B=0, ply-order independence, theta->-theta and theta->theta+90 '
         'are checked as edges between two real executions; symmetry and positive definiteness on every state.',
    note='angles between the alphabet letters are reached only through the seeded generic letters (VERIF_SEED moves them); tolerance 1e-12 of the summand magnitude'),
 'C10': dict(engine='E3', design_ref='4/C10',
    technique='exhaustive enumeration (full products of index pairs x endpoint/mapping/flag alphabets) of the real C tables against exact rational polynomials',
    text='Every exported function of lib/src is called through ctypes for all 900 index pairs of all 17 integral families, '
         'all endpoint pairs of a rational grid, all mapped-argument letters, all 256 0/1 flag settings on the flagged block, '
         'all 30 functions x 3 derivatives x rational abscissae, all Gauss orders 2..64 and all trapezoid/Simpson grid sizes; '
         'each value is compared with the exact rational integral/polynomial. Complete over the stated finite alphabets.',
    note='C compiled from the current tree with gcc -O0 (the extensions embed the same sources; they are rebuilt and shadow-loaded when the sources change); '
         'real-valued endpoints between grid letters are covered only through polynomial structure; tolerance 2e3*eps*conditioning scale'),
}
