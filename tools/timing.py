"""usage: python tools/timing.py C09 quick [filter-expr]  -- runs all cases in the pool and prints the slowest"""
import os, sys, time
HOME = os.path.dirname(os.path.dirname(os.path.abspath(__file__)))
os.environ.setdefault('VERIF_HOME', HOME); os.environ.setdefault('OPENBLAS_NUM_THREADS', '1')
sys.path.insert(0, HOME)
if __name__ == '__main__':
    from mc import core
    pid, tier = sys.argv[1], sys.argv[2]
    rn = core.Runner(pid, 'mc.props.' + pid.lower(), tier, int(os.environ.get('VERIF_SEED', '0')))
    cs = list(rn.mod.cases(tier, rn.seed))
    if len(sys.argv) > 3:
        cs = [c for c in cs if eval(sys.argv[3], dict(c=c))]
    t = time.time()
    res = rn.pmap(cs)
    print('cases', len(cs), 'wall', round(time.time() - t, 1), 'cpu', round(sum(r['t'] for r in res), 1))
    for r in sorted(res, key=lambda r: -r['t'])[:int(os.environ.get('TOP', '25'))]:
        c = r['case']
        print(round(r['t'], 1), str(c)[:230], {k: v for k, v in r.items() if k in ('execs', 'merged', 'n_outcomes', 'states', 'transitions')},
              [f['what'][:70] for f in r['fails']][:3])
    nf = sum(len(r['fails']) for r in res)
    print('total execs', sum(r.get('execs', 1) for r in res), 'fails', nf)
