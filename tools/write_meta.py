#!/usr/bin/env python3
"""Writes /verif/seeded/<id>/meta.json from the table below + confirm.log."""
import json, os, re
T = {
 'C01-1': ('C01', 'per-ply thickness form with a repeated (angle, material) pair carrying different thicknesses (shared Lamina objects)', 'C01', 'laminate A differs from the through-thickness integral; laminate thickness wrong', 'caught as built'),
 'C01-2': ('C01', 'a second calc_constitutive_matrix() on the same Laminate object (e.g. after changing lam.offset): accumulators no longer reset', 'C01', 'recomputing the constitutive matrix of the same laminate object changes it', 'missed at first; C01 gained same-object edges (recompute, change offset and recompute)'),
 'C02-1': ('C02', 'constant pre-load whose three components sum to exactly zero (e.g. +500/-500/0)', 'C02', 'calc_k0 differs from the strain-energy Hessian; constant pre-load does not add the matching initial-stress matrix', 'missed at first; cancelling load triples added to the pre-load alphabet'),
 'C02-2': ('C02', 'history on one Panel: calc_k0, change panel.offset, calc_k0 again (laminate cache key forgets the offset)', 'C02', 'k0 of a re-used Panel object whose definition was changed differs from that of a freshly defined panel', 'missed at first; object re-use edge added to C02/C03/C04'),
 'C03-1': ('C03', 're-used conical panel: alphadeg changed, calc_kG0 called without an intervening calc_k0 (stale alpharad)', 'C03', 'kG0 of a re-used Panel object whose definition was changed differs from that of a freshly defined panel', 'missed at first; object re-use edge added'),
 'C03-2': ('C03', 'state-based kG with offset laminate, a state with curvature and the default Fnxny=None (laminate rebuilt without the offset)', 'C03', "default laminate (panel's own F) differs from passing it explicitly", 'caught as built'),
 'C04-1': ('C04', 'small mass scale (mm-tonne-s units, mu ~ 2.7e-9) with high series orders: entries below machine epsilon pruned in finalize_symmetric_matrix', 'C04', 'calc_kM differs from the kinetic-energy Hessian; kM not positive definite on the active amplitudes', 'missed at first; tiny-density letter added to the mu alphabet'),
 'C04-2': ('C04', 'history on one Panel: calc_k0, change offset, calc_kM alone (offset read from the stale laminate object)', 'C04', 'kM of a re-used Panel object whose definition was changed differs from that of a freshly defined panel', 'missed at first; object re-use edge added'),
 'C09-1': ('C09', 'line_search=True and a diverged/too-slow/iteration-limited step after at least one converged step: the retry iterates in place on the array stored in run.cs', 'C09', 'a reported state was altered after it was reported; reported state was never evaluated at its reported load factor', 'caught as built'),
 'C09-2': ('C09', 'the first attempt at full load fails on a clipped step after a converged step: the bisection starts from an increment larger than the step taken', 'C09', 'reported load factors not strictly increasing; analysis ended with last load factor != 1 ...', 'caught as built'),
 'C10-1': ('C10', 'exactly 37 Gauss points requested (one abscissa of the n=37 table has two digits swapped)', 'C10', 'leggauss_quad: points/weights not symmetric; monomial moment not exact', 'caught as built (binder rebuilt 5 extensions)'),
 'C10-2': ('C10', 'index >= 20 with an off-centre mapping c0 != 0 in integral_ffxi_c0c1 (one coefficient of entry (5,20))', 'C10', 'integral_ffxi_c0c1: mapped argument ... differs from the exact integral', 'caught as built'),
 'C19-1': ('C19', 'bay history: calc_kA, then change bay.aeromu, then calc_cA (attribute frozen on the skin panel overrides the argument)', 'C19', 'calc_cA is not -i*aeromu*Int(w_A w_B); bay cA differs ... (coefficient changed after an earlier evaluation)', 'missed at first; attribute!=argument letter and bay coefficient-change history added'),
 'C19-2': ('C19', 'negative gamma with flow x and finalize=True (curvature part kept symmetric only for gamma > 0)', 'C19', 'calc_kA is not beta*Int(w_A dw_B/dflow) - gamma*Int(w_A w_B)', 'missed at first; negative-gamma coefficient letter added'),
}
T.update({
 'C20-3': ('C20', 'bay history: plot_skin(deform_u=True) deforms the stored default grid in place, a later uvw_skin on the same default grid re-uses it (grid cache keyed on (a,b,gridx,gridy))', 'C20', 'StiffPanelBay/*: result of uvw_skin_grid depends on the call history', 'missed at first; plot operations and default-grid field queries added to the call alphabet, bay series orders raised so that u,v are active'),
 'C20-4': ('C20', 'Panel.lb() overwrites the panel integration rule nx, ny with its defaults: later calc_fint/calc_kT/kG0(c) on the same panel differ from a fresh panel', 'C20', 'Panel/*: result of kT / kG0c / fint depends on the call history', 'caught as built'),
 'C11-3': ('C11', 'user-supplied 2-D point arrays that are not C-contiguous (transposed mesh, Fortran order): points flattened in memory order, results reshaped in C order', 'C11', 'strain report does not return the requested coordinates; w differs from the Ritz series', 'missed at first; non-contiguous 2-D point-set letter added'),
 'C11-4': ('C11', 'assembly group with >= 2 panels of different laminates: stress of later panels uses the first panel ABD', 'C11', "assembly stress of a panel is not that panel's laminate matrix times its strains", 'caught as built'),
 'C08-3': ('C08', 'force_orthotropic_laminate=True with an unbalanced laminate: analytic k0 and numeric fint/kT use different laminate matrices', 'C08', 'linear stiffness differs from the strain-energy Hessian for the laminate used by the non-linear quantities; tangent at the undeformed state is not the linear stiffness', 'missed at first; forced-orthotropic option letter (with generic flags) added'),
 'C08-4': ('C08', 'assembly history: calc_kT/calc_k0(finalize=False) before the connection matrix is cached stores the un-symmetrised penalty matrix', 'C08', 'assembly tangent not symmetric', 'missed at first; finalize=False-first history letter added (also in the C20 assembly alphabet)'),
 'C12-3': ('C12', 'history on the same Panel objects: penalty constants evaluated, ply properties scaled, evaluated again (laminate not rebuilt)', 'C12', 'penalty constant kt/kr of re-used panels does not follow their changed ply properties', 'missed at first; re-use history added to the penalty-constant cases'),
 'C12-4': ('C12', 'T-stiffener with eta_conn_flange != -1 and bb != bf: flange-side interface position computed with the base width', 'C12', 'T-stiffener: base-flange coupling block / flange block is not the connection Hessian on the stated interface line', 'missed at first; connection lists assembled inside TStiff2D / BladeStiff2D are now compared with the mismatch-energy Hessian'),
 'C13-3': ('C13', 'bay with both 2D stiffener kinds, a T stiffener added before a blade stiffener, and a force on a stiffener: force blocks laid out in insertion order', 'C13', "bay force vector is not the skin forces plus each stiffener's forces at that stiffener's own range", 'missed at first; force-vector composition added to the bay cases'),
 'C13-4': ('C13', 'blade stiffener with a base and a skin cut closer than bb/2 to the stiffener: base clipped to the adjacent skin pieces', 'C13', 'splitting the skin at further positions changes the global k0/kM of a stiffened bay', 'missed at first; wider base and the further-cuts invariance with stiffeners present added'),
})
for sid, (prop, needs, check, msg, hist) in T.items():
    d = '/verif/seeded/' + sid
    if not os.path.isdir(d):
        continue
    log = open(d + '/confirm.log').read() if os.path.exists(d + '/confirm.log') else ''
    m = re.search(r'SUMMARY (.*)', log)
    meta = dict(id=sid, breaks_property=prop, needs_to_manifest=needs,
                confirmed=dict(command='tools/confirm_seed.sh <scratch worktree> <dir> <k> %s' % sid, summary=m.group(1) if m else None,
                               note='demo exits 0 on the clean scratch worktree and 1 with patch.diff applied; the repository test-suite still passes with it'),
                detected_by=dict(check=check, quick_cmd='git -C /repo apply seeded/%s/patch.diff && ./check %s; git -C /repo checkout -- .' % (sid, check),
                                 message=msg, history=hist))
    json.dump(meta, open(d + '/meta.json', 'w'), indent=1)
    print('meta', sid)
