#!/bin/bash
# usage: regress_seeds.sh [seed ids...]   -- every seeded change must still be reported by the check named in its meta.json
# Runs in a scratch worktree of /repo HEAD (never in /repo), writes /verif/seeded/REGRESSION.txt
wt=/tmp/wt_regress
git -C /repo worktree remove --force $wt >/dev/null 2>&1
bash /verif/tools/mkscratch.sh $wt >/dev/null || exit 2
ids="${@:-$(ls /verif/seeded | grep '^C')}"
out=/verif/seeded/REGRESSION.txt; [ $# -eq 0 ] && : > $out
for sid in $ids; do
  d=/verif/seeded/$sid
  chk=$(python3 -c "import json;print(json.load(open('$d/meta.json'))['detected_by']['check'])")
  git -C $wt checkout -q -- . ; git -C $wt apply $d/patch.diff 2>/dev/null || { echo "$sid $chk APPLY-FAILED" | tee -a $out; continue; }
  line=$(cd /verif && VERIF_OUT=/tmp/verif_trial_out VERIF_REPO=$wt ./check $chk 2>&1 | grep -E "^$chk tier" | tail -1)
  v=$(echo "$line" | sed -n 's/.*violations=\([0-9]*\).*/\1/p')
  if [ -n "$v" ] && [ "$v" -gt 0 ]; then echo "$sid $chk DETECTED violations=$v" | tee -a $out
  else
    # does the change still break the property on this tree?  (later repairs can neutralise an older seeded change)
    if [ ! -f $d/rebuild.sh ] && PYTHONPATH=$wt timeout 900 /venv/bin/python $d/demo.py >/dev/null 2>&1; then
      echo "$sid $chk NEUTRALISED (its own demonstration passes on this tree with the change applied)" | tee -a $out
    else echo "$sid $chk MISSED ($line)" | tee -a $out; fi
  fi
done
git -C $wt checkout -q -- .
git -C /repo worktree remove --force $wt
