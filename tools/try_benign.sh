#!/bin/bash
# usage: try_benign.sh <worktree> <diff> [check ids...]  -- applies a behaviour-preserving change in a scratch worktree and runs the
# quick checks against it; any VIOLATION is a false alarm of the machinery
wt=$1; df=$2; shift 2; checks="${@:-C01 C02 C03 C04 C05 C06 C07 C08 C09 C10 C11 C12 C13 C14 C15 C16 C17 C18 C19 C20}"
git -C $wt checkout -q -- . ; git -C $wt apply $df || { echo "APPLY FAILED $df"; exit 3; }
for c in $checks; do (cd /verif && VERIF_OUT=/tmp/verif_trial_out VERIF_REPO=$wt ./check $c --tier ${TIER:-quick} 2>&1 | grep -E "^\s+[0-9]+ x|^$c|BINDER" | cut -c1-200 | head -8); done
git -C $wt checkout -q -- .
