#!/bin/bash
# usage: try_mutant2.sh <wave> <pid> <k> [check ids...]  -- /tmp/mut<wave>_<pid>/m<k>.diff applied in /tmp/wt<wave>_<pid>
w=$1; pid=$2; k=$3; shift 3; checks="${@:-$pid}"
wt=/tmp/wt${w}_$pid
git -C $wt checkout -q -- . ; git -C $wt apply /tmp/mut${w}_$pid/m$k.diff || exit 3
for c in $checks; do (cd /verif && VERIF_OUT=/tmp/verif_trial_out VERIF_REPO=$wt ./check $c --tier ${TIER:-quick} 2>&1 | grep -E "^\s+[0-9]+ x|^$c|BINDER" | cut -c1-200 | head -6); done
git -C $wt checkout -q -- .
