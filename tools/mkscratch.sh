#!/bin/bash
# usage: mkscratch.sh <dir>   -- scratch git worktree of /repo HEAD with the untracked build products copied in
set -e
d="$1"
git -C /repo worktree add --detach "$d" HEAD >/dev/null 2>&1
cd /repo
find compmech \( -name "*.so" -o -name "*.c" \) -print0 | rsync -a --from0 --files-from=- /repo/ "$d"/
[ -f compmech/version.py ] && cp compmech/version.py "$d"/compmech/version.py
echo "scratch worktree ready: $d"
