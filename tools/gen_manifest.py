#!/usr/bin/env python3
"""Regenerates MANIFEST.json from tools/manifest_src.py (single source of truth for per-check texts)."""
import json, os, sys
sys.path.insert(0, os.path.dirname(os.path.abspath(__file__)))
from manifest_src import CHECKS, NOT_APPLICABLE, NOTES
props = [json.loads(l)['id'] for l in open(os.path.join(os.path.dirname(__file__), '..', 'properties.jsonl'))]
checks = []
for pid in props:
    if pid not in CHECKS:
        continue
    c = CHECKS[pid]
    checks.append(dict(
        property_id=pid,
        quick_cmd='./check %s --tier quick' % pid,
        thorough_cmd='./check %s --tier thorough' % pid,
        evidence_file='/verif/evidence/%s.json' % pid,
        replay_cmd_template='./check %s --replay {path}' % pid,
        engine=c['engine'],
        level_claimed=dict(category='model_checking', text=c['text'], design_ref=c['design_ref']),
        level_note=c['note'],
        technique=c['technique']))
na = [dict(property_id=p, reason=NOT_APPLICABLE.get(p, 'check not built yet in this round (planned, see DESIGN.md section 4)'))
      for p in props if p not in CHECKS]
man = dict(
    version=1,
    setup_cmd='./check --setup',
    hooks=dict(guard='COMPMECH_VERIF', enable='no source hooks: checks import the working tree of /repo directly '
               '(frame introspection and attribute digests replace instrumentation)',
               baseline_off_cmd='cd /repo && /venv/bin/python -m pytest -ra -q -p no:cacheprovider --timeout=900 '
                                '--continue-on-collection-errors',
               source_commits=[], add_only=True),
    engines=[dict(name='E1', path='mc/props/c09.py', serves_properties=['C09'],
                  kind_free_text='stateless choice-tree explorer over environment answer histories of the real Newton-Raphson driver'),
             dict(name='E2', path='mc/props/c20.py', serves_properties=['C20'],
                  kind_free_text='explicit-state BFS over public call histories on real objects, state = digest of all attributes'),
             dict(name='E3', path='mc/core.py', serves_properties=[p for p in props if p not in ('C09', 'C20')],
                  kind_free_text='configuration-lattice / full-product explorer: every element of a finite alphabet product is executed on the real code and compared with an independent reference model')],
    checks=checks, notes=NOTES, not_applicable=na)
json.dump(man, open(os.path.join(os.path.dirname(__file__), '..', 'MANIFEST.json'), 'w'), indent=1)
print('MANIFEST.json: %d checks, %d not_applicable' % (len(checks), len(na)))
